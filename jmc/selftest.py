"""Framework self-test: the explorer must find a planted bug in a toy machine and
stay silent on the correct one; the epoch model must flag a doubled batch."""
import sys
import numpy as np
from jmc.core.explorer import explore
from jmc.core.refmodels import EpochModel, V


def toy(bug):
    # counter modulo 3 with ops inc/reset; planted bug: inc skips 2 when reached via reset,inc,inc
    def step(s, op, h):
        n = 0 if op == "r" else (s + 1) % 3
        if bug and h[-2:] == ["r", "i"] and op == "i":
            n = 0
        ref = 0
        for o in h + [op]:
            ref = 0 if o == "r" else (ref + 1) % 3
        return n, ([V("toy", "mismatch", f"{h+[op]}")] if n != ref else [])
    return explore(0, lambda s, h: ["i", "r"], step, lambda s: s, 4)


def main():
    ok = True
    st = toy(False)
    ok &= (not st.viol) and st.transitions == 30 and len(st.canon) == 3
    st = toy(True)
    ok &= bool(st.viol) and st.viol[0][0] == ["r", "i", "i"]
    store = np.arange(4.0)[:, None]
    m = EpochModel("t", 4, 2, store)
    m, v1 = m.observe(store, 0, store[0:2])
    m, v2 = m.observe(store, 2, store[2:4])
    m, v3 = m.observe(store, 4, store[2:4])
    ok &= (not v1) and (not v2) and len(v3) == 2
    print("selftest", "ok" if ok else "FAILED")
    return 0 if ok else 1


if __name__ == "__main__":
    sys.exit(main())
