"""Construction of real jinns data generators from JSON-able configs, and a uniform
"stream" view on them (store, cursor, batch size, last served batch) used by the
history checks C08, C09, C14, C15, C16, C17, C20.  Only public fields named in the
properties' anchors are read (times/omega/omega_border/indices/param_n_samples,
curr_*_idx, p_*, rar_iter_nb)."""
from __future__ import annotations

import numpy as np
import jax
import jax.numpy as jnp
import jinns


def key_of(k):
    return jax.random.PRNGKey(int(k))


def build(cfg):
    """cfg: dict with 'kind' in {ode, statio, nonstatio, obs, param} and fields"""
    kind = cfg["kind"]
    k = key_of(cfg.get("key", 0))
    rar = cfg.get("rar")
    if kind == "ode":
        kw = {}
        if rar is not None:
            kw = dict(rar_parameters=dict(rar), nt_start=cfg["nt_start"])
        elif cfg.get("nt_start") is not None:
            kw = dict(nt_start=cfg["nt_start"])  # documented as ignored without RAR
        return jinns.data.DataGeneratorODE(
            k, cfg["nt"], cfg.get("tmin", 0.0), cfg.get("tmax", 1.0), cfg["bt"], cfg.get("method", "uniform"), **kw
        )
    if kind in ("statio", "nonstatio"):
        dim = cfg["dim"]
        kw = dict(
            key=k,
            n=cfg["n"],
            nb=cfg.get("nb"),
            omega_batch_size=cfg["bx"],
            omega_border_batch_size=cfg.get("bb"),
            dim=dim,
            min_pts=tuple(cfg["min_pts"]),
            max_pts=tuple(cfg["max_pts"]),
            method=cfg.get("method", "uniform"),
        )
        if rar is not None:
            kw.update(rar_parameters=dict(rar), n_start=cfg["n_start"])
        elif cfg.get("n_start") is not None:
            kw.update(n_start=cfg["n_start"])  # documented as ignored without RAR
        if kind == "statio":
            return jinns.data.CubicMeshPDEStatio(**kw)
        kw.update(
            nt=cfg["nt"],
            temporal_batch_size=cfg["bt"],
            tmin=cfg.get("tmin", 0.0),
            tmax=cfg.get("tmax", 1.0),
            cartesian_product=cfg.get("cartesian", True),
        )
        if rar is not None or cfg.get("nt_start") is not None:
            kw.update(nt_start=cfg["nt_start"])
        return jinns.data.CubicMeshPDENonStatio(**kw)
    if kind == "obs":
        n, d_in = cfg["n"], cfg.get("d_in", 1)
        pinn_in, val, eqp = obs_table(n, d_in, cfg.get("n_eq", 0), cfg.get("flat", False))
        return jinns.data.DataGeneratorObservations(k, cfg["b"], pinn_in, val, eqp)
    if kind == "param":
        pr = {kk: tuple(v) for kk, v in cfg.get("ranges", {}).items()}
        ud = {kk: jnp.asarray(np.array(v, dtype=float)) for kk, v in cfg.get("user", {}).items()}
        if cfg.get("user_2d"):
            ud = {kk: v[:, None] for kk, v in ud.items()}
        if cfg.get("keydict"):
            # documented alternative: one PRNG key per parameter name, here written in non-alphabetical order
            names = sorted(set(pr) | set(ud), reverse=True)
            k = {nm: jax.random.fold_in(k, i) for i, nm in enumerate(names)}
        return jinns.data.DataGeneratorParameter(k, cfg["n"], cfg["b"], pr, cfg.get("method", "uniform"), ud)
    raise ValueError(kind)


def obs_table(n, d_in=1, n_eq=0, flat=False):
    """row k is recognisable in every column"""
    r = np.arange(n, dtype=float)
    if d_in == 1:
        pinn_in = r[:, None] if not flat else r
    else:
        pinn_in = np.stack([r] + [10.0 * (j + 1) * r + j + 1 for j in range(d_in - 1)], axis=1)
    val = (100.0 + r)[:, None] if not flat else 100.0 + r
    eqp = {f"e{j}": ((1000.0 * (j + 1) + r)[:, None] if not flat else 1000.0 * (j + 1) + r) for j in range(n_eq)}
    return jnp.asarray(pinn_in), jnp.asarray(val), {k: jnp.asarray(v) for k, v in eqp.items()}


# ------------------------------------------------------------------------------ streams
class Stream:
    """one mini-batched store of a generator"""

    def __init__(self, name, n, b, store, cursor, op, from_batch):
        self.name, self.n, self.b = name, n, b
        self.store = store  # gen -> np.ndarray (rows on axis 0)
        self.cursor = cursor  # gen -> int
        self.op = op  # name of the partial public op drawing from this stream only (or None)
        self.from_batch = from_batch  # result of op -> np rows


def rows(a):
    a = np.asarray(a)
    return a.reshape(a.shape[0], -1)


def streams(cfg, gen):
    kind = cfg["kind"]
    out = []
    if kind in ("ode", "nonstatio"):
        out.append(
            Stream("times", cfg["nt"], cfg["bt"], lambda g: rows(g.times), lambda g: int(g.curr_time_idx), "temporal_batch", rows)
        )
    if kind in ("statio", "nonstatio"):
        out.append(
            Stream("omega", cfg["n"], cfg["bx"], lambda g: rows(g.omega), lambda g: int(g.curr_omega_idx), "inside_batch", rows)
        )
        if cfg.get("bb") is not None and cfg["dim"] == 2:
            out.append(
                Stream(
                    "border",
                    cfg["nb"] // 4,
                    cfg["bb"],
                    lambda g: rows(g.omega_border),
                    lambda g: int(g.curr_omega_border_idx),
                    "border_batch",
                    rows,
                )
            )
    if kind == "obs":
        out.append(
            Stream("indices", cfg["n"], cfg["b"], lambda g: rows(g.indices), lambda g: int(g.curr_idx), "obs_batch",
                   lambda bd: rows(bd["pinn_in"])[:, :1])
        )
    if kind == "param":
        for kk in sorted(set(cfg.get("ranges", {})) | set(cfg.get("user", {}))):
            out.append(
                Stream(
                    f"param[{kk}]",
                    cfg["n"],
                    cfg["b"],
                    (lambda g, kk=kk: rows(g.param_n_samples[kk])),
                    (lambda g, kk=kk: int(g.curr_param_idx[kk])),
                    None,
                    (lambda bd, kk=kk: rows(bd[kk])),
                )
            )
    return out


def batch_parts(cfg, gen_after, batch):
    """split the object returned by get_batch into {stream name: rows served} using
    only the documented batch layout.  For space-time batches the parts are recovered
    from the product/pairing structure by C14's oracle, here we return the unique
    time / space rows in order of first appearance."""
    kind = cfg["kind"]
    if kind == "ode":
        return {"times": rows(batch.temporal_batch)}
    if kind == "statio":
        d = {"omega": rows(batch.inside_batch)}
        if batch.border_batch is not None and cfg["dim"] == 2:
            d["border"] = rows(batch.border_batch)
        return d
    if kind == "nonstatio":
        tx = np.asarray(batch.times_x_inside_batch)
        bt, bx = cfg["bt"], cfg["bx"]
        if cfg.get("cartesian", True):
            t = tx[::bx, :1][:bt]
            x = tx[:bx, 1:]
        else:
            t, x = tx[:, :1], tx[:, 1:]
        d = {"times": t, "omega": x}
        if batch.times_x_border_batch is not None and cfg["dim"] == 2:
            txb = np.asarray(batch.times_x_border_batch)  # (rows, 1+dim, 4)
            bb = cfg["bb"]
            if cfg.get("cartesian", True):
                d["border"] = rows(txb[:bb, 1:, :])
            else:
                d["border"] = rows(txb[:, 1:, :])
        return d
    if kind == "obs":
        return {"indices": rows(batch["pinn_in"])[:, :1]}
    if kind == "param":
        return {f"param[{kk}]": rows(v) for kk, v in batch.items()}
    raise ValueError(kind)


def label(row):
    return tuple(np.asarray(row).ravel().tolist())
