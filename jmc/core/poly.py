"""Exact multivariate polynomial calculus on {exponent tuple: Fraction} maps.
No JAX, no autodiff, no code shared with jinns: the numeric oracle of C01-C05, C11."""
from __future__ import annotations

from fractions import Fraction

import numpy as np


class Poly:
    __slots__ = ("nvar", "c")

    def __init__(self, nvar, coeffs=None):
        self.nvar = nvar
        self.c = {}
        for e, v in (coeffs or {}).items():
            v = Fraction(v)
            if v != 0:
                self.c[tuple(e)] = self.c.get(tuple(e), 0) + v

    @staticmethod
    def mono(e, coef=1):
        return Poly(len(e), {tuple(e): Fraction(coef)})

    @staticmethod
    def const(nvar, v):
        return Poly(nvar, {(0,) * nvar: Fraction(v)})

    @staticmethod
    def var(nvar, i):
        e = [0] * nvar
        e[i] = 1
        return Poly.mono(e)

    def __add__(self, o):
        if not isinstance(o, Poly):
            o = Poly.const(self.nvar, o)
        r = Poly(self.nvar, self.c)
        for e, v in o.c.items():
            nv = r.c.get(e, 0) + v
            if nv == 0:
                r.c.pop(e, None)
            else:
                r.c[e] = nv
        return r

    __radd__ = __add__

    def __neg__(self):
        return self * -1

    def __sub__(self, o):
        return self + (o * -1 if isinstance(o, Poly) else -Fraction(o))

    def __rsub__(self, o):
        return (self * -1) + o

    def __mul__(self, o):
        if not isinstance(o, Poly):
            f = Fraction(o)
            return Poly(self.nvar, {e: v * f for e, v in self.c.items()})
        r = {}
        for e1, v1 in self.c.items():
            for e2, v2 in o.c.items():
                e = tuple(a + b for a, b in zip(e1, e2))
                r[e] = r.get(e, 0) + v1 * v2
        return Poly(self.nvar, r)

    __rmul__ = __mul__

    def d(self, i, order=1):
        p = self
        for _ in range(order):
            r = {}
            for e, v in p.c.items():
                if e[i] > 0:
                    e2 = list(e)
                    e2[i] -= 1
                    r[tuple(e2)] = r.get(tuple(e2), 0) + v * e[i]
            p = Poly(self.nvar, r)
        return p

    def __call__(self, z):
        """evaluate at a float point (float64)"""
        z = np.asarray(z, dtype=np.float64)
        s = 0.0
        for e, v in self.c.items():
            s += float(v) * float(np.prod([z[k] ** e[k] for k in range(self.nvar) if e[k]]))
        return s

    def eval_many(self, pts):
        """evaluate at many float points: pts (P, nvar) -> (P,)"""
        pts = np.asarray(pts, dtype=np.float64)
        out = np.zeros(pts.shape[0])
        for e, v in self.c.items():
            term = np.full(pts.shape[0], float(v))
            for k in range(self.nvar):
                if e[k]:
                    term = term * pts[:, k] ** e[k]
            out += term
        return out

    def is_zero(self):
        return not self.c

    def degree(self):
        return max((sum(e) for e in self.c), default=0)

    def coef_vector(self, expo):
        """coefficients along a list of exponent tuples (must cover the support)"""
        idx = {tuple(e): i for i, e in enumerate(expo)}
        out = np.zeros(len(expo))
        for e, v in self.c.items():
            out[idx[e]] = float(v)
        return out


def laplacian(p, spatial):
    r = Poly(p.nvar)
    for i in spatial:
        r = r + p.d(i, 2)
    return r


def divergence(ps, spatial):
    r = Poly(ps[0].nvar)
    for k, i in enumerate(spatial):
        r = r + ps[k].d(i)
    return r


def advection(ps, spatial):
    """((u . grad) u)_c = sum_k u_k d_k u_c"""
    out = []
    for c in range(len(spatial)):
        r = Poly(ps[0].nvar)
        for k, i in enumerate(spatial):
            r = r + ps[k] * ps[c].d(i)
        out.append(r)
    return out
