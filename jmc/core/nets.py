"""Analytic networks plugged into the *real* jinns wrappers (PINN / SPINN).

The inner modules are ordinary eqx.Modules whose array leaves are the trainable
parameters, so eqx.partition / eqx.combine inside PINN treat them like an MLP."""
from __future__ import annotations

import itertools

import numpy as np
import jax
import jax.numpy as jnp
import equinox as eqx
from jinns.utils._pinn import PINN


def _id_in(x, p):
    return x


def _id_out(x, y, p):
    return y


class Affine(eqx.Module):
    """u(z) = W z + b   (n_out outputs)"""

    W: jax.Array
    b: jax.Array

    def __call__(self, z):
        return self.W @ z + self.b


class PolyNet(eqx.Module):
    """u_c(z) = sum_m coef[c, m] * prod_k z_k ** expo[m, k]; coef is the trainable leaf"""

    coef: jax.Array
    expo: tuple = eqx.field(static=True)

    def __call__(self, z):
        e = jnp.asarray(np.array(self.expo, dtype=float))
        mono = jnp.prod(jnp.where(e > 0, z[None, :] ** e, 1.0), axis=1)
        return self.coef @ mono


def monomials(nvar, deg):
    """all exponent tuples of total degree <= deg, simplest first"""
    out = []
    for d in range(deg + 1):
        for e in itertools.product(range(d + 1), repeat=nvar):
            if sum(e) == d:
                out.append(e)
    return out


def make_pinn(inner, eq_type, n_out, slice_solution=None, input_transform=None, output_transform=None, output_slice=None):
    return PINN(
        mlp=inner,
        slice_solution=slice_solution if slice_solution is not None else jnp.s_[0:n_out],
        eq_type=eq_type,
        input_transform=input_transform or _id_in,
        output_transform=output_transform or _id_out,
        output_slice=output_slice,
    )


def affine_pinn(eq_type, W, b):
    W = jnp.asarray(np.atleast_2d(np.array(W, dtype=float)))
    b = jnp.asarray(np.atleast_1d(np.array(b, dtype=float)))
    return make_pinn(Affine(W, b), eq_type, W.shape[0])


def poly_pinn(eq_type, coef, expo, **kw):
    coef = jnp.asarray(np.atleast_2d(np.array(coef, dtype=float)))
    return make_pinn(PolyNet(coef, tuple(tuple(int(i) for i in e) for e in expo)), eq_type, coef.shape[0], **kw)
