"""Explicit-state exploration of operation histories on real (immutable) objects.

A state is any Python value (the live jinns object(s) + the reference-model state
kept in lock-step).  Because jinns objects are frozen pytrees, a reached state can be
extended along several operations without replaying its history.

explore() walks *every* word over the enabled operations up to `depth`
(breadth-first, operations in the given simplest-first order, so the first
counterexample is a shortest one) and evaluates the
lock-step comparison + invariants in `step`.  Pruning on the canonical form is
optional and off by default (see DESIGN 2.1)."""
from __future__ import annotations

from collections import deque


class Stats:
    def __init__(self):
        self.canon = set()
        self.transitions = 0
        self.traces = 0
        self.max_depth = 0
        self.viol = []  # (history, violation dict)
        self.outcomes = set()
        self.sample_trace = None

    def as_result(self, extra=None):
        r = {
            "states": len(self.canon),
            "transitions": self.transitions,
            "traces": self.traces,
            "evals": self.transitions,
            "outcomes": sorted(self.outcomes)[:2000],
            "viol": [dict(v, history=h) for h, v in self.viol],
        }
        if extra:
            r.update(extra)
        return r


def explore(init_state, ops_of, step, canon, depth, stats=None, prune=False, outcome=None, max_viol=3):
    """ops_of(state, history) -> list of op labels enabled in that state
    step(state, op, history) -> (new_state, [violation dicts])   (calls the real code)
    canon(state) -> hashable
    """
    st = stats or Stats()
    st.canon.add(canon(init_state))
    queue = deque([(init_state, [])])
    while queue:
        state, hist = queue.popleft()
        ops = ops_of(state, hist) if len(hist) < depth else []
        if not ops:
            st.traces += 1
            st.max_depth = max(st.max_depth, len(hist))
            if st.sample_trace is None or len(hist) > len(st.sample_trace):
                st.sample_trace = list(hist)
            continue
        succ = []
        for op in ops:
            new_state, viols = step(state, op, hist)
            st.transitions += 1
            h2 = hist + [op]
            if outcome is not None and new_state is not None:
                st.outcomes.add(outcome(new_state))
            if viols:
                for v in viols:
                    if len(st.viol) < max_viol or (v["site"], v["kind"]) not in {(x["site"], x["kind"]) for _, x in st.viol}:
                        st.viol.append((h2, v))
                st.traces += 1  # the trace ends at the violating step
                continue
            c = canon(new_state)
            seen = c in st.canon
            st.canon.add(c)
            if prune and seen:
                st.traces += 1
                continue
            succ.append((new_state, h2))
        queue.extend(succ)
    return st
