"""Shared pieces for the loss-term checks (C03-C06, C12, C13, C20): polynomial networks in
the real PINN wrapper, analytic user equations, exact jets, hand-built batches."""
from __future__ import annotations

import itertools
import warnings
from fractions import Fraction

import numpy as np
import jax
import jax.numpy as jnp
import equinox as eqx
import jinns
from jinns.loss._DynamicLossAbstract import ODE, PDEStatio, PDENonStatio
from jinns.data._Batchs import ODEBatch, PDEStatioBatch, PDENonStatioBatch

from jmc.core import nets
from jmc.core.poly import Poly

EQ_TYPE = {"ode": "ODE", "statio": "statio_PDE", "nonstatio": "nonstatio_PDE"}


def nvar_of(kind, d):
    return 1 if kind == "ode" else (d if kind == "statio" else 1 + d)


def fixed_coef(n_out, M, salt=0):
    """deterministic, asymmetric, non-zero rational coefficients"""
    return np.array([[((3 * c + 2 * m + salt) % 7 - 3 + 0.5 * ((c + m + salt) % 2)) / 4.0 for m in range(M)] for c in range(n_out)])


def make_u(kind, d, n_out, deg=2, salt=0, **kw):
    nv = nvar_of(kind, d)
    expo = nets.monomials(nv, deg)
    coef = fixed_coef(n_out, len(expo), salt)
    return nets.poly_pinn(EQ_TYPE[kind], coef, expo, **kw), coef, expo


def polys(coef, expo):
    nv = len(expo[0])
    return [Poly(nv, {expo[m]: Fraction(coef[c, m]).limit_denominator(10**9) for m in range(len(expo)) if coef[c, m]}) for c in range(coef.shape[0])]


def jets(coef, expo, pts, orders):
    """exact derivative arrays: dict order-tuple -> (n_out, P)"""
    pts = np.asarray(pts, dtype=np.float64)
    out = {}
    for p in polys(coef, expo):
        for o in orders:
            q = p
            for i in o:
                q = q.d(i)
            out.setdefault(o, []).append(q.eval_many(pts))
    return {o: np.stack(v) for o, v in out.items()}


# ------------------------------------------------------------------ analytic user equations
def _residual(ncomp, u0, grads_sum, last, first_coord, a, b):
    comps = [grads_sum + a * u0, u0 ** 2 - b, a * first_coord + b * last]
    return jnp.stack(comps[:ncomp])


class UserODE(ODE):
    ncomp: int = eqx.field(static=True, default=1, kw_only=True)

    def equation(self, t, u, params):
        a, b = params.eq_params["a"], params.eq_params["b"]
        val = u(t, params)
        du = jax.jacfwd(lambda tt: u(tt, params))(t).reshape(-1)
        return _residual(self.ncomp, val[0], du[0], val[-1], jnp.reshape(t, ()), jnp.reshape(a, ()), jnp.reshape(b, ()))


class UserStatio(PDEStatio):
    ncomp: int = eqx.field(static=True, default=1, kw_only=True)

    def equation(self, x, u, params):
        a, b = params.eq_params["a"], params.eq_params["b"]
        val = u(x, params)
        g = jax.jacfwd(lambda xx: u(xx, params))(x)  # (n_out, d)
        return _residual(self.ncomp, val[0], jnp.sum(g[0]), val[-1], x[0], jnp.reshape(a, ()), jnp.reshape(b, ()))


class UserNonStatio(PDENonStatio):
    ncomp: int = eqx.field(static=True, default=1, kw_only=True)

    def equation(self, t, x, u, params):
        a, b = params.eq_params["a"], params.eq_params["b"]
        val = u(t, x, params)
        gt = jax.jacfwd(lambda tt: u(tt, x, params))(t).reshape(-1)
        gx = jax.jacfwd(lambda xx: u(t, xx, params))(x)
        return _residual(self.ncomp, val[0], gt[0] + jnp.sum(gx[0]), val[-1], t[0], jnp.reshape(a, ()), jnp.reshape(b, ()))


def user_eq(kind, ncomp, **kw):
    return {"ode": UserODE, "statio": UserStatio, "nonstatio": UserNonStatio}[kind](ncomp=ncomp, **kw)


def residual_exact(kind, d, ncomp, coef, expo, pts, a, b):
    """NumPy mirror of the user equation from exact jets; pts (P, nvar) -> (P, ncomp); a, b scalars or (P,)"""
    nv = nvar_of(kind, d)
    J = jets(coef, expo, pts, [()] + [(i,) for i in range(nv)])
    u0, last = J[()][0], J[()][-1]
    gs = sum(J[(i,)][0] for i in range(nv))
    comps = [gs + a * u0, u0 ** 2 - b, a * pts[:, 0] + b * last]
    return np.stack(comps[:ncomp], axis=-1)


# ------------------------------------------------------------------ points and batches
BASE = [0.35, -0.8, 1.4, 0.9, -0.25, 0.6, 1.15, -0.55, 0.05, 0.75, -1.1, 1.7]


def points(P, nv, salt=0):
    """P distinct, asymmetric points in R^nv"""
    return np.array([[BASE[(3 * i + 5 * v + salt) % len(BASE)] + 0.013 * i + 0.07 * v for v in range(nv)] for i in range(P)], dtype=np.float64)


def make_batch(kind, pts, border=None, param=None, obs=None):
    pts = jnp.asarray(pts)
    if kind == "ode":
        return ODEBatch(temporal_batch=pts[:, 0], param_batch_dict=param, obs_batch_dict=obs)
    if kind == "statio":
        return PDEStatioBatch(inside_batch=pts, border_batch=None if border is None else jnp.asarray(border), param_batch_dict=param, obs_batch_dict=obs)
    return PDENonStatioBatch(times_x_inside_batch=pts, times_x_border_batch=None if border is None else jnp.asarray(border), param_batch_dict=param, obs_batch_dict=obs)


def quiet(f, *a, **k):
    with warnings.catch_warnings():
        warnings.simplefilter("ignore")
        return f(*a, **k)


_JIT_EVAL = None


def jit_eval(loss, params, batch):
    """the way solve runs a loss: the loss object is a pytree argument of the jitted function"""
    global _JIT_EVAL
    if _JIT_EVAL is None:
        _JIT_EVAL = eqx.filter_jit(lambda l, p, b: l.evaluate(p, b))
    return _JIT_EVAL(loss, params, batch)
