"""Shared machinery for C16 / C17: real RAR generators (recording subclasses), analytic
residual landscapes, the {B, T} operation alphabet and the integer schedule model."""
from __future__ import annotations

import warnings

import numpy as np
import jax
import jax.numpy as jnp
import equinox as eqx
import jinns
from jinns.solver._rar import init_rar, trigger_rar
from jinns.loss._DynamicLossAbstract import ODE, PDEStatio, PDENonStatio

from jmc.core import nets
from jmc.core.refmodels import V

SINK = []


def _rec(tag):
    def cb(a):
        SINK.append((tag, np.asarray(a)))

    return cb


class RecODE(jinns.data.DataGeneratorODE):
    def sample_in_time_domain(self, key, sample_size=None):
        r = super().sample_in_time_domain(key, sample_size)
        jax.debug.callback(_rec("t"), r)
        return r


class RecStatio(jinns.data.CubicMeshPDEStatio):
    def sample_in_omega_domain(self, keys, sample_size=None):
        r = super().sample_in_omega_domain(keys, sample_size)
        jax.debug.callback(_rec("x"), r)
        return r


class RecNonStatio(jinns.data.CubicMeshPDENonStatio):
    def sample_in_time_domain(self, key, sample_size=None):
        r = super().sample_in_time_domain(key, sample_size)
        jax.debug.callback(_rec("t"), r)
        return r

    def sample_in_omega_domain(self, keys, sample_size=None):
        r = super().sample_in_omega_domain(keys, sample_size)
        jax.debug.callback(_rec("x"), r)
        return r


def drain():
    jax.effects_barrier()
    out = list(SINK)
    SINK.clear()
    return out


class ResODE(ODE):
    ncomp: int = eqx.field(static=True, default=1, kw_only=True)

    def equation(self, t, u, params):
        r = u(t, params) - params.eq_params["c"]
        if self.ncomp == 2:  # second component: a different landscape, so that the ranking depends on both
            r = jnp.concatenate([r, 1.5 * jnp.sin(3.0 * jnp.reshape(t, (1,)))])
        return r


class ResStatio(PDEStatio):
    ncomp: int = eqx.field(static=True, default=1, kw_only=True)

    def equation(self, x, u, params):
        r = u(x, params) - params.eq_params["c"]
        if self.ncomp == 2:
            r = jnp.concatenate([r, 1.5 * jnp.sin(3.0 * x[:1])])
        return r


class ResNonStatio(PDENonStatio):
    def equation(self, t, x, u, params):
        return u(t, x, params) - params.eq_params["c"]


class SysODE(ODE):
    def equation(self, t, u_dict, params_dict):
        return u_dict["u"](t, params_dict.extract_params("u")) - params_dict.eq_params["c"]


class SysStatio(PDEStatio):
    def equation(self, x, u_dict, params_dict):
        return u_dict["u"](x, params_dict.extract_params("u")) - params_dict.eq_params["c"]


class SysSinODE(ODE):
    def equation(self, t, u_dict, params_dict):
        return 1.5 * jnp.sin(3.0 * jnp.reshape(t, (1,)))


class SysSinStatio(PDEStatio):
    def equation(self, x, u_dict, params_dict):
        return 1.5 * jnp.sin(3.0 * x[:1])


class SysNonStatio(PDENonStatio):
    def equation(self, t, x, u_dict, params_dict):
        return u_dict["u"](t, x, params_dict.extract_params("u")) - params_dict.eq_params["c"]


def build(cfg, record=True):
    """cfg: kind in {ode, statio, nonstatio}; dim; start, every; (nt_start, sel_t, cand_t, nt); (n_start, sel_x, cand_x, n);
    batch sizes bt/bx; key; landscape coefficients wt, wx, b, c"""
    kind = cfg["kind"]
    key = jax.random.PRNGKey(cfg["key"])
    rar = {"start_iter": cfg["start"], "update_every": cfg["every"]}
    if kind in ("ode", "nonstatio"):
        rar.update(sample_size_times=cfg["cand_t"], selected_sample_size_times=cfg["sel_t"])
    if kind in ("statio", "nonstatio"):
        rar.update(sample_size_omega=cfg["cand_x"], selected_sample_size_omega=cfg["sel_x"])
    if cfg.get("rar_order") == "omega_first":
        rar = {k: rar[k] for k in sorted(rar)}  # same content, written in another order ('sample_size_omega' first)
    d = cfg.get("dim", 0)
    lo, hi = [-1.0, 0.5][:d], [2.0, 1.5][:d]
    with warnings.catch_warnings():
        warnings.simplefilter("ignore")
        het = None
        if cfg.get("hetero"):
            # the equation parameter c is declared heterogeneous: c(point) = c + HET_A * sin(HET_W * first coordinate)
            hf = {"ode": (lambda t, u, p: p.eq_params["c"] + HET_A * jnp.sin(HET_W * jnp.reshape(t, ()))),
                  "statio": (lambda x, u, p: p.eq_params["c"] + HET_A * jnp.sin(HET_W * x[0])),
                  "nonstatio": (lambda t, x, u, p: p.eq_params["c"] + HET_A * jnp.sin(HET_W * x[0]))}[kind]
            het = {"c": hf}
        if kind == "ode":
            cls = RecODE if record else jinns.data.DataGeneratorODE
            g = cls(key, cfg["nt"], 0.0, 1.0, cfg["bt"], "uniform", rar, cfg["nt_start"])
            u = nets.affine_pinn("ODE", [[cfg["wt"]]], [cfg["b"]])
            dyn = ResODE(ncomp=cfg.get("ncomp", 1), eq_params_heterogeneity=het)
        elif kind == "statio":
            cls = RecStatio if record else jinns.data.CubicMeshPDEStatio
            g = cls(key=key, n=cfg["n"], nb=None, omega_batch_size=cfg["bx"], omega_border_batch_size=None, dim=d,
                    min_pts=tuple(lo), max_pts=tuple(hi), rar_parameters=rar, n_start=cfg["n_start"])
            u = nets.affine_pinn("statio_PDE", [cfg["wx"][:d]], [cfg["b"]])
            dyn = ResStatio(ncomp=cfg.get("ncomp", 1), eq_params_heterogeneity=het)
        else:
            cls = RecNonStatio if record else jinns.data.CubicMeshPDENonStatio
            g = cls(key=key, n=cfg["n"], nb=None, nt=cfg["nt"], omega_batch_size=cfg["bx"], omega_border_batch_size=None,
                    temporal_batch_size=cfg["bt"], dim=d, min_pts=tuple(lo), max_pts=tuple(hi), tmin=0.0, tmax=1.0,
                    rar_parameters=rar, n_start=cfg["n_start"], nt_start=cfg["nt_start"])
            u = nets.affine_pinn("nonstatio_PDE", [[cfg["wt"]] + cfg["wx"][:d]], [cfg["b"]])
            dyn = ResNonStatio(eq_params_heterogeneity=het)
        params = jinns.parameters.Params(nn_params=u.init_params(), eq_params={"c": jnp.asarray(cfg["c"])})
        if cfg.get("system"):
            # one-unknown, one-equation system loss (the schedule must not depend on the kind of loss)
            params = jinns.parameters.ParamsDict(nn_params={"u": u.init_params()}, eq_params={"c": jnp.asarray(cfg["c"])})
            two = cfg.get("system") == 2 and kind != "nonstatio"
            if kind == "ode":
                eqs = {"zz": SysODE(), "aa": SysSinODE()} if two else {"e": SysODE()}
                loss = jinns.loss.SystemLossODE(u_dict={"u": u}, dynamic_loss_dict=eqs, loss_weights=jinns.loss.LossWeightsODEDict(dyn_loss=1.0), params_dict=params)
            else:
                eqs = {"zz": SysStatio(), "aa": SysSinStatio()} if two else {"e": SysStatio() if kind == "statio" else SysNonStatio()}
                loss = jinns.loss.SystemLossPDE(u_dict={"u": u}, dynamic_loss_dict=eqs, loss_weights=jinns.loss.LossWeightsPDEDict(), params_dict=params)
        elif kind == "ode":
            loss = jinns.loss.LossODE(u=u, dynamic_loss=dyn, initial_condition=None, params=params)
        elif kind == "statio":
            loss = jinns.loss.LossPDEStatio(u=u, dynamic_loss=dyn, params=params)
        else:
            loss = jinns.loss.LossPDENonStatio(u=u, dynamic_loss=dyn, params=params)
    drain()
    return g, loss, params, (lo, hi)


HET_A, HET_W = 2.0, 6.0


def residual_sq(cfg, t=None, x=None):
    """independent NumPy recomputation of the squared residual (float64)"""
    r = cfg["b"] - cfg["c"]
    if cfg.get("hetero"):
        first_ = np.asarray(t, dtype=np.float64) if x is None else np.asarray(x, dtype=np.float64)[..., 0]
        r = r - HET_A * np.sin(HET_W * first_)
    if t is not None:
        r = r + cfg["wt"] * np.asarray(t, dtype=np.float64)
    if x is not None:
        x = np.asarray(x, dtype=np.float64)
        r = r + x @ np.asarray(cfg["wx"][: x.shape[-1]], dtype=np.float64)
    if cfg.get("ncomp", 1) == 2 or cfg.get("system") == 2:
        first = np.asarray(t, dtype=np.float64) if t is not None and x is None else x[..., 0]
        return r**2 + (1.5 * np.sin(3.0 * first)) ** 2
    return r**2


class View:
    """what the properties can observe on a RAR generator"""

    def __init__(self, cfg, g):
        self.kind = cfg["kind"]
        self.has_t = self.kind in ("ode", "nonstatio")
        self.has_x = self.kind in ("statio", "nonstatio")
        self.iter_nb = int(g.rar_iter_nb)
        if self.has_t:
            self.p_t = np.asarray(g.p_times)
            self.times = np.asarray(g.times)
            self.nz_t = int(np.count_nonzero(self.p_t))
        if self.has_x:
            self.p_x = np.asarray(g.p_omega)
            self.omega = np.asarray(g.omega)
            self.nz_x = int(np.count_nonzero(self.p_x))

    def counts(self):
        return (self.nz_t if self.has_t else None, self.nz_x if self.has_x else None, self.iter_nb)

    def active(self, which):
        if which == "t":
            return sorted(self.times[: self.nz_t].tolist())
        return sorted(map(tuple, self.omega[: self.nz_x].tolist()))


class Schedule:
    """integer reference model of C16"""

    def __init__(self, cfg):
        self.cfg = cfg
        self.J = 0

    def copy(self):
        s = Schedule(self.cfg)
        s.J = self.J
        return s

    def expect_step(self, i):
        c = self.cfg
        if i < c["start"] or (i - c["start"]) % c["every"] != 0:
            return False
        if c["kind"] in ("ode", "nonstatio") and c["nt"] - (c["nt_start"] + self.J * c["sel_t"]) < c["sel_t"]:
            return False
        if c["kind"] in ("statio", "nonstatio") and c["n"] - (c["n_start"] + self.J * c["sel_x"]) < c["sel_x"]:
            return False
        return True

    def counts(self):
        c = self.cfg
        return (
            c["nt_start"] + self.J * c["sel_t"] if c["kind"] in ("ode", "nonstatio") else None,
            c["n_start"] + self.J * c["sel_x"] if c["kind"] in ("statio", "nonstatio") else None,
            self.J,
        )


def check_counts(site, cfg, view, sched, i, stepped_expected):
    """C16 invariants after a trigger at iteration i"""
    v = []
    exp = sched.counts()
    got = view.counts()
    for name, e, g_, cap in (("times", exp[0], got[0], cfg.get("nt")), ("omega", exp[1], got[1], cfg.get("n"))):
        if e is None:
            continue
        if g_ != e:
            J = sched.J
            sel = cfg["sel_t"] if name == "times" else cfg["sel_x"]
            n0 = cfg["nt_start"] if name == "times" else cfg["n_start"]
            if g_ == n0 + max(J - 1, 0) * sel and J >= 1 and got[2] == J:
                kind = "active_count_lags_one_step_behind(n_start+(J-1)*selected)"
            elif got[2] != J:
                kind = "step_" + ("missing_at_scheduled_iteration" if got[2] < J else "taken_off_schedule_or_beyond_capacity")
            else:
                kind = "active_count_differs_from_n_start+J*selected"
            v.append(V(f"{site}/{name}", kind, f"iteration {i}: {J} step(s) expected by now, rar_iter_nb={got[2]}, non-zero probabilities={g_}, expected {e} (start={cfg['start']} every={cfg['every']} n_start={n0} selected={sel} capacity={cap})"))
        elif g_ > cap:
            v.append(V(f"{site}/{name}", "active_count_exceeds_store", f"{g_} > {cap}"))
        p = view.p_t if name == "times" else view.p_x
        nzpos = np.nonzero(p)[0]
        if len(nzpos) and nzpos[-1] != len(nzpos) - 1:
            v.append(V(f"{site}/{name}", "non_zero_probabilities_not_a_prefix", f"{nzpos.tolist()}"))
    if not v and got[2] != exp[2]:
        v.append(V(f"{site}", "step_counter_differs", f"iteration {i}: rar_iter_nb={got[2]} expected {exp[2]}"))
    return v
