"""Boring reference models kept in lock-step with the real objects."""
from __future__ import annotations

from collections import Counter

import numpy as np

from .gens import label


def V(site, kind, detail=""):
    return {"site": site, "kind": kind, "detail": str(detail)[:500]}


class EpochModel:
    """C09: epoch semantics of one mini-batched store.

    Observational: reads the store, the cursor ("start of the last served batch")
    and the served rows.  A reshuffle is observed as cursor == 0 after the draw."""

    __slots__ = ("site", "n", "b", "multiset0", "index", "served", "nb_in_epoch", "epochs")

    def __init__(self, site, n, b, store0):
        self.site, self.n, self.b = site, n, b
        labs = [label(r) for r in store0]
        self.multiset0 = sorted(labs)
        self.index = {lab: i for i, lab in enumerate(self.multiset0)}
        self.served = None  # Counter over label indices in the current epoch
        self.nb_in_epoch = 0
        self.epochs = 0

    def distinct(self):
        return len(set(self.multiset0)) == len(self.multiset0)

    def _copy(self):
        m = EpochModel.__new__(EpochModel)
        for s in self.__slots__:
            setattr(m, s, getattr(self, s))
        return m

    def canon(self, cursor):
        mask = 0
        if self.served is not None:
            for i in self.served:
                mask |= 1 << i
        return (self.site, min(int(cursor), self.n + self.b + 1), mask, self.nb_in_epoch)

    def untouched(self, store_before, cur_before, store_after, cur_after):
        if cur_before != cur_after or not np.array_equal(store_before, store_after):
            return [V(self.site, "stream_changed_by_unrelated_draw", f"cursor {cur_before}->{cur_after}")]
        return []

    def observe(self, store_after, cur_after, batch_rows):
        """returns (new_model, violations)"""
        viol = []
        m = self._copy()
        after = sorted(label(r) for r in store_after)
        if after != self.multiset0:
            viol.append(V(self.site, "store_not_a_permutation_of_initial_store", f"n={self.n} b={self.b}"))
            return m, viol
        labs = [label(r) for r in batch_rows]
        if len(labs) != self.b:
            viol.append(V(self.site, "batch_size_wrong", f"got {len(labs)} rows, b={self.b}"))
            return m, viol
        idx = []
        for lab in labs:
            if lab not in self.index:
                viol.append(V(self.site, "batch_row_not_in_store", f"row {lab}"))
                return m, viol
            idx.append(self.index[lab])
        if len(set(idx)) != len(idx):
            viol.append(V(self.site, "point_twice_in_one_batch", f"rows {idx}"))
        reshuffled = cur_after == 0
        full = self.served is not None and len(self.served) == self.n
        if self.served is None or reshuffled:
            if self.served is not None and not full:
                viol.append(
                    V(self.site, "reshuffle_before_all_points_served",
                      f"n={self.n} b={self.b} served {sorted(self.served)} after {self.nb_in_epoch} batches")
                )
            m.served = Counter(idx)
            m.nb_in_epoch = 1
            m.epochs = self.epochs + 1
        else:
            if full:
                viol.append(
                    V(self.site, "no_reshuffle_after_all_points_served",
                      f"n={self.n} b={self.b}: batch {self.nb_in_epoch + 1} of the epoch, cursor={cur_after}")
                )
            m.served = Counter(self.served)
            m.served.update(idx)
            m.nb_in_epoch = self.nb_in_epoch + 1
            if self.n % self.b == 0 and max(m.served.values()) > 1:
                viol.append(
                    V(self.site, "point_served_twice_between_reshuffles",
                      f"n={self.n} b={self.b}: counts {dict(m.served)} cursor={cur_after}")
                )
        return m, viol
