"""Training programs for C07 / C18 / C19: small real problems (real create_PINN MLPs, real
losses, real generators) and the textbook reference loop written against the public
API only."""
from __future__ import annotations

import warnings

import numpy as np
import jax
import jax.numpy as jnp
import equinox as eqx
import optax
import jinns
from jinns.loss._DynamicLossAbstract import ODE, PDEStatio, PDENonStatio


# ------------------------------------------------------------------ equations
class Decay(ODE):
    """u' + a u  (+ NaN once the clock parameter reaches nan_from)"""

    def equation(self, t, u, params):
        du = jax.jacfwd(lambda tt: u(tt, params))(t)
        r = du.reshape(-1) + params.eq_params["a"] * u(t, params)
        return r + _clock_nan(params)


class Helm(PDEStatio):
    def equation(self, x, u, params):
        d2 = jax.hessian(lambda xx: u(xx, params)[0])(x)
        return jnp.trace(d2)[None] + params.eq_params["a"] * u(x, params) - jnp.sin(x) + _clock_nan(params)


class Heat(PDENonStatio):
    def equation(self, t, x, u, params):
        ut = jax.jacfwd(lambda tt: u(tt, x, params)[0])(t).reshape(-1)
        d2 = jax.hessian(lambda xx: u(t, xx, params)[0])(x)
        return ut - params.eq_params["a"] * jnp.trace(d2)[None] + _clock_nan(params)


def _clock_nan(params):
    """fault seam 'loss value': eq_params['clock'] is advanced by the harness optimizer; from
    clock >= nan_from on the residual is NaN.  Absent keys => no fault."""
    ep = params.eq_params
    if "clock" not in ep:
        return 0.0
    return jnp.where(ep["clock"] >= ep["nan_from"], jnp.nan, 0.0)


# ------------------------------------------------------------------ problems
def make_problem(cfg):
    """cfg: kind, n, b, key, aux in {none,param,obs,both}, clock (bool)"""
    kind = cfg["kind"]
    key = jax.random.PRNGKey(cfg.get("key", 0))
    k1, k2, k3, k4 = jax.random.split(key, 4)
    n, b = cfg["n"], cfg["b"]
    aux = cfg.get("aux", "none")
    eq_params = {}
    if cfg.get("clock"):
        eq_params.update(nan_from=jnp.asarray(float(cfg.get("nan_from", 1e9))), clock=jnp.asarray(0.0))
    eq_params["a"] = jnp.asarray(0.7)  # non-alphabetical insertion order
    if cfg.get("inf_param"):
        eq_params["cap"] = jnp.asarray(jnp.inf)  # valid, unused by the equation: only NaN may stop training
    hidden = cfg.get("hidden", 3)
    with warnings.catch_warnings():
        warnings.simplefilter("ignore")
        if kind == "ode":
            u = jinns.utils.create_PINN(k1, ((eqx.nn.Linear, 1, hidden), (jnp.tanh,), (eqx.nn.Linear, hidden, 1)), "ODE")
            if cfg.get("rar"):
                data = jinns.data.DataGeneratorODE(k2, n + 4, 0.0, 1.0, b, "uniform",
                                                   {"start_iter": 1, "update_every": 2, "sample_size_times": 4, "selected_sample_size_times": 1}, n)
            else:
                data = jinns.data.DataGeneratorODE(k2, n, 0.0, 1.0, b)
            rows, d_in = b, 1
        elif kind == "statio":
            u = jinns.utils.create_PINN(k1, ((eqx.nn.Linear, 1, hidden), (jnp.tanh,), (eqx.nn.Linear, hidden, 1)), "statio_PDE", 1)
            data = jinns.data.CubicMeshPDEStatio(key=k2, n=n, nb=2, omega_batch_size=b, omega_border_batch_size=2 if aux == "none" else None,
                                                 dim=1, min_pts=(-1.0,), max_pts=(1.0,))
            rows, d_in = b, 1
        else:
            u = jinns.utils.create_PINN(k1, ((eqx.nn.Linear, 2, hidden), (jnp.tanh,), (eqx.nn.Linear, hidden, 1)), "nonstatio_PDE", 1)
            nt, bt = cfg.get("nt", n), cfg.get("bt", b)
            data = jinns.data.CubicMeshPDENonStatio(key=k2, n=n, nb=2, nt=nt, omega_batch_size=b, omega_border_batch_size=2 if aux == "none" else None,
                                                    temporal_batch_size=bt, dim=1, min_pts=(-1.0,), max_pts=(1.0,), tmin=0.0, tmax=1.0)
            rows, d_in = bt * b, 2
        params = jinns.parameters.Params(nn_params=u.init_params(), eq_params=eq_params)
        if kind == "ode":
            dk = jinns.parameters.DerivativeKeysODE.from_str(params=params, dyn_loss="both")
            loss = jinns.loss.LossODE(u=u, dynamic_loss=Decay(), initial_condition=(0.0, 1.0), derivative_keys=dk,
                                      loss_weights=jinns.loss.LossWeightsODE(dyn_loss=1.0, initial_condition=2.0, observations=0.5), params=params)
        elif kind == "statio":
            dk = jinns.parameters.DerivativeKeysPDEStatio.from_str(params=params, dyn_loss="both")
            kw = dict(omega_boundary_fun=lambda dx: 0.0, omega_boundary_condition="dirichlet") if aux == "none" else {}
            loss = jinns.loss.LossPDEStatio(u=u, dynamic_loss=Helm(), derivative_keys=dk, params=params, **kw)
        else:
            dk = jinns.parameters.DerivativeKeysPDENonStatio.from_str(params=params, dyn_loss="both")
            kw = dict(omega_boundary_fun=lambda t, dx: 0.0, omega_boundary_condition="dirichlet") if aux == "none" else {}
            loss = jinns.loss.LossPDENonStatio(u=u, dynamic_loss=Heat(), derivative_keys=dk, params=params,
                                               initial_condition_fun=lambda x: jnp.sin(3.0 * x), **kw)
        param_data = obs_data = None
        if aux in ("param", "both"):
            param_data = jinns.data.DataGeneratorParameter(k3, 2 * rows + 1, rows, {"a": (0.5, 1.5)})
        if aux in ("obs", "both"):
            N = 2 * rows + 1
            r = np.arange(N, dtype=float)
            pin = (r / N)[:, None] if d_in == 1 else np.stack([r / N, 1.0 - 2 * r / N], axis=1)
            obs_data = jinns.data.DataGeneratorObservations(k4, rows, jnp.asarray(pin), jnp.asarray(np.cos(3 * r)[:, None]))
    return dict(u=u, data=data, params=params, loss=loss, param_data=param_data, obs_data=obs_data)


def make_optimizer(name, extra=None):
    if name == "sgd":
        tx = optax.sgd(0.05)
    elif name == "adam":
        tx = optax.adam(0.02)
    elif name == "chain":
        tx = optax.chain(optax.clip(1.0), optax.scale_by_adam(), optax.scale_by_schedule(lambda c: -0.05 / (1.0 + c)))
    else:
        raise ValueError(name)
    if extra:
        tx = optax.chain(*extra, tx)
    return tx


def tracked_spec(name, params):
    if name == "none":
        return None
    # "non-None values for parameters that need to be tracked": True for "eq", other non-None numbers for "nn+eq"
    flag = True if name == "eq" else 2.5
    eq_tracked = {k: (flag if k == "a" else None) for k in reversed(list(params.eq_params))}  # a dict is matched by key
    if name == "eq":
        return jinns.parameters.Params(nn_params=None, eq_params=eq_tracked)
    return jinns.parameters.Params(nn_params=jax.tree_util.tree_map(lambda _: 3, params.nn_params), eq_params=eq_tracked)


# ------------------------------------------------------------------ textbook loop
def draw(data, param_data, obs_data):
    data, batch = data.get_batch()
    if param_data is not None:
        param_data, pb = param_data.get_batch()
        batch = jinns.data.append_param_batch(batch, pb)
    if obs_data is not None:
        obs_data, ob = obs_data.get_batch()
        batch = jinns.data.append_obs_batch(batch, ob)
    return batch, data, param_data, obs_data


def has_nan(tree):
    return any(bool(np.any(np.isnan(np.asarray(l)))) for l in jax.tree_util.tree_leaves(tree))


def reference_loop(n_iter, params, data, loss, optimizer, opt_state=None, tracked=None, param_data=None, obs_data=None,
                   validation=None, stop_on_nan=True):
    """Plain Python loop over the public API.  Returns a dict with everything solve returns
    plus the iteration at which it stopped."""
    if opt_state is None:
        opt_state = optimizer.init(params)
    rar_on = getattr(data, "rar_parameters", None) is not None
    if rar_on:
        from jinns.solver._rar import init_rar, trigger_rar
        data, rar_t, rar_f = init_rar(data)
    _, data, param_data, obs_data = draw(data, param_data, obs_data)  # solve's priming draw
    totals = np.zeros(n_iter)
    terms_hist = None
    tracked_hist = None
    if tracked is not None:
        tracked_hist = jax.tree_util.tree_map(lambda t, p: (np.zeros((n_iter,) + np.asarray(p).shape) if t is not None else None),
                                              tracked, params, is_leaf=lambda x: x is None)
    val_crit = np.zeros(n_iter) if validation is not None else None
    best = params
    last_good = params
    vg = jax.value_and_grad(lambda p, b: loss(p, b), has_aux=True)
    i = 0
    stopped = None
    calls = []
    while i < n_iter:
        batch, data, param_data, obs_data = draw(data, param_data, obs_data)
        (val, terms), grads = vg(params, batch)
        updates, opt_state = optimizer.update(grads, opt_state, params)
        new_params = optax.apply_updates(params, updates)
        totals[i] = float(val)
        if terms_hist is None:
            terms_hist = {k: np.zeros(n_iter) for k in terms}
        for k in terms:
            terms_hist[k][i] = float(terms[k])
        params = new_params
        nan_now = has_nan(params)
        if not nan_now:
            last_good = params
        early = False
        if validation is not None:
            if i % validation.call_every == 0:
                validation, early, crit, improved = validation(params)
                calls.append(i)
                val_crit[i] = float(crit)
                if bool(improved):
                    best = params
            else:
                val_crit[i] = val_crit[i - 1]
        if rar_on:
            # refinement only changes the collocation store; it never alters the parameters
            _, _, data = trigger_rar(i, loss, params, data, rar_t, rar_f)
        if tracked_hist is not None:
            def put(h, p, t):
                if h is None:
                    return None
                h[i] = np.asarray(p)
                return h
            tracked_hist = jax.tree_util.tree_map(put, tracked_hist, params, tracked, is_leaf=lambda x: x is None)
        i += 1
        if stop_on_nan and nan_now:
            stopped = "nan"
            break
        if bool(early):
            stopped = "early"
            break
    return dict(params=last_good, totals=totals, terms=terms_hist or {}, data=data, opt_state=opt_state, tracked=tracked_hist,
                val_crit=val_crit, best=best if validation is not None else None, n_done=i, stopped=stopped, validation=validation,
                cur_params=params, val_calls=calls)


# ------------------------------------------------------------------ comparison helpers
def leaves_close(a, b, tol=1e-10, nan_ok=False):
    la, lb = jax.tree_util.tree_leaves(a), jax.tree_util.tree_leaves(b)
    if len(la) != len(lb):
        return False, f"leaf count {len(la)} vs {len(lb)}"
    worst = 0.0
    for x, y in zip(la, lb):
        x, y = np.asarray(x, dtype=float), np.asarray(y, dtype=float)
        if x.shape != y.shape:
            return False, f"shape {x.shape} vs {y.shape}"
        if nan_ok:
            if not np.array_equal(np.isnan(x), np.isnan(y)):
                return False, "NaN pattern differs"
            x, y = np.nan_to_num(x), np.nan_to_num(y)
        elif np.any(np.isnan(x)) or np.any(np.isnan(y)):
            return False, "unexpected NaN"
        ix, iy = np.isinf(x), np.isinf(y)
        if np.any(ix) or np.any(iy):
            if not np.array_equal(np.where(ix, np.sign(x), 0.0), np.where(iy, np.sign(y), 0.0)):
                return False, "pattern of infinite entries differs"
            x, y = np.where(ix, 0.0, x), np.where(iy, 0.0, y)
        if x.size:
            d = float(np.max(np.abs(x - y) / (1.0 + np.abs(y))))
            worst = max(worst, d)
    return worst <= tol, f"max rel diff {worst:.3e}"


def gen_equal(a, b):
    """bit-exact equality of two generators' array leaves"""
    la, lb = jax.tree_util.tree_leaves(a), jax.tree_util.tree_leaves(b)
    if len(la) != len(lb):
        return False
    return all(np.array_equal(np.asarray(x), np.asarray(y)) for x, y in zip(la, lb))
