"""C08 — collocation points lie in the declared domain, with declared counts and shapes.

Machine: state = real generator; op = get_batch.  Invariants evaluated on every
reached state (stored fields) and on every returned batch: counts, shapes, closed
interval / box membership, facet pinning and facet order."""
from __future__ import annotations

import math

import numpy as np

from jmc.core import gens
from jmc.core.explorer import explore
from jmc.core.refmodels import V

ID = "C08"
LEVEL = "model_checking"
X64 = False
RULE = (
    "complete enumeration of generator kind x sampling method x point count x domain x dimension x batch sizes x key; "
    "'ctor' cases sweep every n in a range through the constructor (state invariant on the initial state), 'hist' cases "
    "run get_batch histories across two reshuffles and check the invariant on every state and every batch. "
    "Non-trivial = the case produced at least one checked array; distinct by (kind, method, dim, domain, sizes)."
)
ASSUMPTIONS = [
    "a constructor that raises ValueError/AssertionError/NotImplementedError rejects the configuration (not a violation)",
    "bounds are compared in the dtype of the generated arrays (closed interval)",
    "2-D grid generators are only built with perfect-square n (documented requirement)",
    "3 PRNG keys per configuration (one derived from VERIF_SEED)",
]
BOUNDS = {
    "quick": {"n_sweep_1d": 130, "n_sweep_2d_sqrt": 12, "hist_n": [1, 2, 3, 5, 8], "keys": 2, "x64": False},
    "thorough": {"n_sweep_1d": 260, "n_sweep_2d_sqrt": 24, "hist_n": [1, 2, 3, 4, 5, 6, 8, 9], "keys": 3, "x64": True},
}

DOMS = [[0.0, 1.0], [-1.0, 1.0], [0.5, 2.0], [-3, -1], [0.1, 0.7]]  # one domain given with integer bounds (as the test-suite does)
BOXES = [([-1.0, 0.0], [2.0, 1.0]), ([0.5, -3], [2.0, -1]), ([0.1, 0.0], [0.7, 5.0])]


def cases(tier, seed):
    B = BOUNDS[tier]
    keys = [seed + 11, 5, 999][: B["keys"]]
    out = []
    x64s = [False, True] if B["x64"] else [False]
    for x64 in x64s:
        chunk = 13
        for dom in DOMS:
            for lo in range(1, B["n_sweep_1d"] + 1, chunk):
                ns = list(range(lo, min(lo + chunk, B["n_sweep_1d"] + 1)))
                for kind in ("ode", "statio", "nonstatio", "param"):
                    out.append(dict(type="ctor", kind=kind, method="grid", dom=dom, ns=ns, key=keys[0], x64=x64))
            for kind in ("ode", "statio", "nonstatio", "param"):
                out.append(dict(type="ctor", kind=kind, method="uniform", dom=dom, ns=[1, 2, 3, 7, 16, 33], key=keys[-1], x64=x64))
        for box in BOXES:
            sq = [k * k for k in range(1, B["n_sweep_2d_sqrt"] + 1)]
            for i in range(0, len(sq), 4):
                out.append(dict(type="ctor2d", method="grid", box=box, ns=sq[i:i + 4], key=keys[0], x64=x64))
            out.append(dict(type="ctor2d", method="uniform", box=box, ns=[1, 2, 3, 5, 8, 13], key=keys[0], x64=x64))
        # histories
        for n in B["hist_n"]:
            for b in sorted({1, 2, n, max(1, n - 1)}):
                if b > n:
                    continue
                for key in keys:
                    for di, dom in enumerate(DOMS):
                        if (di + n + b) % 2 and tier == "quick":
                            continue
                        for method in ("uniform", "grid"):
                            out.append(dict(type="hist", cfg=dict(kind="ode", nt=n, bt=b, tmin=dom[0], tmax=dom[1], method=method, key=key), x64=x64))
                            out.append(dict(type="hist", cfg=dict(kind="statio", n=n, bx=b, dim=1, min_pts=[dom[0]], max_pts=[dom[1]], nb=2, bb=2, method=method, key=key), x64=x64))
                            out.append(dict(type="hist", cfg=dict(kind="nonstatio", n=n, bx=b, nt=n + 2, bt=b, dim=1, min_pts=[dom[0]], max_pts=[dom[1]],
                                                                  tmin=DOMS[(di + 1) % 5][0], tmax=DOMS[(di + 1) % 5][1], nb=2, bb=2, method=method,
                                                                  cartesian=bool((n + b) % 2), key=key), x64=x64))
                            out.append(dict(type="hist", cfg=dict(kind="param", n=n, b=b, ranges={"nu": dom, "mu": DOMS[(di + 2) % 5]},
                                                                  user={"mu": [float(7 * j - 3) for j in range(n)]}, method=method, key=key), x64=x64))
                    for bi, box in enumerate(BOXES):
                        for method in ("uniform", "grid"):
                            if method == "grid" and int(math.isqrt(n)) ** 2 != n:
                                continue
                            nf = n  # points per facet
                            out.append(dict(type="hist", cfg=dict(kind="statio", n=n, bx=b, dim=2, min_pts=box[0], max_pts=box[1], nb=4 * nf, bb=b,
                                                                  method=method, key=key), x64=x64))
                            out.append(dict(type="hist", cfg=dict(kind="nonstatio", n=n, bx=b, nt=n, bt=b, dim=2, min_pts=box[0], max_pts=box[1],
                                                                  tmin=DOMS[bi][0], tmax=DOMS[bi][1], nb=4 * nf, bb=b, method=method,
                                                                  cartesian=bool((n + b + bi) % 2), key=key), x64=x64))
    # 64-bit mode (also in the quick tier): 1-D domains whose end points are not representable in single precision
    for dom in ([0.1, 0.7], [-0.7, 0.1]):
        for kind in ("statio", "nonstatio"):
            out.append(dict(type="ctor", kind=kind, method="uniform", dom=dom, ns=[2, 5], key=keys[0], x64=True))
    # generators configured for residual-adaptive refinement: every pre-allocated row is a point of the domain
    for x64 in x64s:
        for key in keys:
            for (n, n_start, b) in ((6, 2, 2), (7, 3, 2), (10, 4, 4)):
                rar_t = {"start_iter": 0, "update_every": 1, "sample_size_times": 3, "selected_sample_size_times": 1}
                rar_x = {"start_iter": 0, "update_every": 1, "sample_size_omega": 3, "selected_sample_size_omega": 1}
                out.append(dict(type="hist", cfg=dict(kind="ode", nt=n, bt=b, tmin=0.5, tmax=2.0, method="uniform", key=key, rar=rar_t, nt_start=n_start), x64=x64))
                out.append(dict(type="hist", cfg=dict(kind="statio", n=n, bx=b, dim=2, min_pts=[0.5, -3.0], max_pts=[2.0, -1.0], nb=None, bb=None,
                                                      method="uniform", key=key, rar=rar_x, n_start=n_start), x64=x64))
                out.append(dict(type="hist", cfg=dict(kind="nonstatio", n=n, bx=b, nt=n + 1, bt=b, dim=1, min_pts=[0.5], max_pts=[2.0], tmin=0.5, tmax=2.0,
                                                      nb=None, bb=None, method="uniform", key=key, rar={**rar_t, **rar_x}, n_start=n_start, nt_start=n_start + 1), x64=x64))
    out.sort(key=lambda c: (c["x64"], c["type"] != "ctor", c["type"]))
    return out


def _mode_dtype():
    import jax
    return np.float64 if jax.config.jax_enable_x64 else np.float32


def _b(x, like=None):
    """a declared bound in the default floating-point type of the current mode"""
    return np.asarray(x, _mode_dtype())


def _inbox(a, lo, hi):
    a = np.asarray(a)
    return bool(np.all(a >= _b(lo)) and np.all(a <= _b(hi)))


def check_state(cfg, g):
    """invariants on the stored fields"""
    kind, v = cfg["kind"], []
    site = f"{kind}{cfg.get('dim', '')}/{cfg.get('method', 'uniform')}"
    nchk = 0
    if kind in ("ode", "nonstatio"):
        t = np.asarray(g.times)
        nchk += 1
        if t.shape != (cfg["nt"],):
            v.append(V(site, "times_count_differs_from_nt", f"nt={cfg['nt']} [{cfg['tmin']},{cfg['tmax']}] stored shape {t.shape}"))
        if not _inbox(t, cfg["tmin"], cfg["tmax"]):
            v.append(V(site, "stored_time_outside_interval", f"nt={cfg['nt']} [{cfg['tmin']},{cfg['tmax']}] min={t.min()} max={t.max()}"))
    if kind in ("statio", "nonstatio"):
        o = np.asarray(g.omega)
        d = cfg["dim"]
        nchk += 1
        if o.shape != (cfg["n"], d):
            v.append(V(site, "omega_count_differs_from_n", f"n={cfg['n']} box {cfg['min_pts']}..{cfg['max_pts']} stored shape {o.shape}"))
        for ax in range(min(d, o.shape[-1] if o.ndim == 2 else 0)):
            if not _inbox(o[:, ax], cfg["min_pts"][ax], cfg["max_pts"][ax]):
                v.append(V(site, "stored_point_outside_box", f"n={cfg['n']} axis {ax} range [{o[:, ax].min()},{o[:, ax].max()}] box {cfg['min_pts']}..{cfg['max_pts']}"))
        if cfg.get("bb") is not None:
            ob = np.asarray(g.omega_border)
            if d == 1:
                if ob.shape != (2,) or not (ob[0] == _b(cfg["min_pts"][0]) and ob[1] == _b(cfg["max_pts"][0])):
                    v.append(V(site, "1d_border_is_not_the_pair_of_end_points", f"{ob}"))
            else:
                nf = cfg["nb"] // 4
                if ob.shape != (nf, 2, 4):
                    v.append(V(site, "border_store_shape", f"nb={cfg['nb']} shape {ob.shape}"))
                else:
                    v += _facets(site, ob, cfg, "stored")
    if kind == "param":
        for k in sorted(set(cfg.get("ranges", {})) | set(cfg.get("user", {}))):
            a = np.asarray(g.param_n_samples[k])
            nchk += 1
            if a.shape != (cfg["n"], 1):
                v.append(V(site, "param_sample_count_differs_from_n", f"key {k} n={cfg['n']} range {cfg.get('ranges', {}).get(k)} shape {a.shape}"))
            if k in cfg.get("user", {}):
                if sorted(a.ravel().tolist()) != sorted(np.asarray(cfg["user"][k], a.dtype).tolist()):
                    v.append(V(site, "param_store_is_not_the_user_table", f"key {k}"))
            elif not _inbox(a, *cfg["ranges"][k]):
                v.append(V(site, "param_sample_outside_range", f"key {k} range {cfg['ranges'][k]} [{a.min()},{a.max()}]"))
    return v, nchk


def _facets(site, ob, cfg, what):
    """ob: (rows, 2, 4) spatial coordinates per facet; facets ordered xmin,xmax,ymin,ymax"""
    v = []
    lo, hi = cfg["min_pts"], cfg["max_pts"]
    pins = [(0, lo[0]), (0, hi[0]), (1, lo[1]), (1, hi[1])]
    for f, (ax, val) in enumerate(pins):
        pinned = ob[:, ax, f]
        free = ob[:, 1 - ax, f]
        if not np.all(pinned == _b(val)):
            v.append(V(site, f"{what}_border_point_not_on_its_facet", f"facet {f} (order xmin,xmax,ymin,ymax) coordinate {ax} = {pinned[:3]} expected {val}"))
        if not _inbox(free, lo[1 - ax], hi[1 - ax]):
            v.append(V(site, f"{what}_border_free_coordinate_outside_box", f"facet {f} free axis {1 - ax} range [{free.min()},{free.max()}]"))
    return v


def check_batch(cfg, batch):
    kind, v = cfg["kind"], []
    site = f"{kind}{cfg.get('dim', '')}/{cfg.get('method', 'uniform')}"
    if kind == "ode":
        t = np.asarray(batch.temporal_batch)
        if t.shape != (cfg["bt"],):
            v.append(V(site, "batch_shape", f"temporal {t.shape} expected ({cfg['bt']},)"))
        if not _inbox(t, cfg["tmin"], cfg["tmax"]):
            v.append(V(site, "batch_time_outside_interval", f"{t}"))
    elif kind == "statio":
        x = np.asarray(batch.inside_batch)
        d = cfg["dim"]
        if x.shape != (cfg["bx"], d):
            v.append(V(site, "batch_shape", f"inside {x.shape} expected ({cfg['bx']},{d})"))
        else:
            for ax in range(d):
                if not _inbox(x[:, ax], cfg["min_pts"][ax], cfg["max_pts"][ax]):
                    v.append(V(site, "batch_point_outside_box", f"axis {ax}"))
        if cfg.get("bb") is not None:
            bb = np.asarray(batch.border_batch)
            if d == 1:
                exp = np.asarray([cfg["min_pts"][0], cfg["max_pts"][0]], _mode_dtype())
                if bb.shape != (1, 1, 2) or not np.array_equal(bb[0, 0], exp):
                    v.append(V(site, "1d_border_batch_is_not_the_pair_of_end_points", f"{bb.tolist()}"))
            else:
                if bb.shape != (cfg["bb"], 2, 4):
                    v.append(V(site, "batch_shape", f"border {bb.shape} expected ({cfg['bb']},2,4)"))
                else:
                    v += _facets(site, bb, cfg, "batch")
    elif kind == "nonstatio":
        tx = np.asarray(batch.times_x_inside_batch)
        d = cfg["dim"]
        cart = cfg.get("cartesian", True)
        rows_ = cfg["bt"] * cfg["bx"] if cart else cfg["bx"]
        if tx.shape != (rows_, 1 + d):
            v.append(V(site, "batch_shape", f"inside {tx.shape} expected ({rows_},{1 + d}) cartesian={cart}"))
        else:
            if not _inbox(tx[:, 0], cfg["tmin"], cfg["tmax"]):
                v.append(V(site, "batch_time_outside_interval", f"column 0 range [{tx[:, 0].min()},{tx[:, 0].max()}] interval [{cfg['tmin']},{cfg['tmax']}]"))
            for ax in range(d):
                if not _inbox(tx[:, 1 + ax], cfg["min_pts"][ax], cfg["max_pts"][ax]):
                    v.append(V(site, "batch_point_outside_box", f"axis {ax}"))
        if cfg.get("bb") is not None:
            tb = np.asarray(batch.times_x_border_batch)
            if d == 1:
                if tb.shape != (cfg["bt"], 2, 2):
                    v.append(V(site, "batch_shape", f"border {tb.shape} expected ({cfg['bt']},2,2)"))
                else:
                    exp = np.asarray([cfg["min_pts"][0], cfg["max_pts"][0]], _mode_dtype())
                    if not np.all(tb[:, 1, :] == exp[None, :]):
                        v.append(V(site, "1d_border_batch_is_not_the_pair_of_end_points", f"{tb[:, 1, :].tolist()}"))
                    if not _inbox(tb[:, 0, :], cfg["tmin"], cfg["tmax"]):
                        v.append(V(site, "batch_time_outside_interval", "border"))
            else:
                rb = cfg["bt"] * cfg["bb"] if cart else cfg["bb"]
                if tb.shape != (rb, 3, 4):
                    v.append(V(site, "batch_shape", f"border {tb.shape} expected ({rb},3,4)"))
                else:
                    if not _inbox(tb[:, 0, :], cfg["tmin"], cfg["tmax"]):
                        v.append(V(site, "batch_time_outside_interval", "border"))
                    v += _facets(site, tb[:, 1:, :], cfg, "batch")
    elif kind == "param":
        for k, a in batch.items():
            a = np.asarray(a)
            if a.shape != (cfg["b"], 1):
                v.append(V(site, "batch_shape", f"param {k} {a.shape}"))
            if k in cfg.get("user", {}):
                tab = set(np.asarray(cfg["user"][k], a.dtype).tolist())
                if not set(a.ravel().tolist()) <= tab:
                    v.append(V(site, "param_batch_not_from_user_table", f"key {k}"))
            elif not _inbox(a, *cfg["ranges"][k]):
                v.append(V(site, "param_batch_outside_range", f"key {k}"))
    return v


REJECT = (ValueError, AssertionError, NotImplementedError)
_JJ = []


def _ctor_cfg(kind, method, dom, n, key):
    if kind == "ode":
        return dict(kind="ode", nt=n, bt=1, tmin=dom[0], tmax=dom[1], method=method, key=key)
    if kind == "statio":
        return dict(kind="statio", n=n, bx=1, dim=1, min_pts=[dom[0]], max_pts=[dom[1]], nb=2, bb=2, method=method, key=key)
    if kind == "nonstatio":
        # the numbers of time and space points differ (alternately nt > n and nt < n), and so do their domains
        other = max(1, n // 3)
        nt_, n_ = (n, other) if n % 2 else (other, n)
        return dict(kind="nonstatio", n=n_, bx=1, nt=nt_, bt=1, dim=1, min_pts=[dom[0]], max_pts=[dom[1]], tmin=dom[0] + 0.25, tmax=dom[1] + 0.5, nb=2, bb=2,
                    method=method, key=key)
    return dict(kind="param", n=n, b=1, ranges={"nu": dom}, user={}, method=method, key=key)


def run_case(case):
    viol, evals, nontriv, outcomes = [], 0, [], []
    if case["type"] in ("ctor", "ctor2d"):
        for n in case["ns"]:
            if case["type"] == "ctor":
                cfg = _ctor_cfg(case["kind"], case["method"], case["dom"], n, case["key"])
            else:
                box = case["box"]
                cfg = dict(kind="statio", n=n, bx=1, dim=2, min_pts=box[0], max_pts=box[1], nb=4, bb=1, method=case["method"], key=case["key"])
            try:
                g = gens.build(cfg)
            except REJECT:
                outcomes.append("rejected")
                continue
            v, k = check_state(cfg, g)
            evals += 1
            viol += v
            _, b = g.get_batch()
            viol += check_batch(cfg, b)
            outcomes.append(f"{cfg['kind']}|{n}")
        nontriv = [f"{case['type']}|{case.get('kind')}|{case['method']}|{case.get('dom', case.get('box'))}|{case['ns'][0]}|{case['x64']}"]
        return dict(viol=viol, evals=evals, states=evals, transitions=evals, traces=evals, nontrivial=nontriv, outcomes=outcomes,
                    sample={"type": case["type"], "kind": case.get("kind"), "method": case["method"], "ns": case["ns"]})
    cfg = case["cfg"]
    try:
        g0 = gens.build(cfg)
    except REJECT:
        return dict(viol=[], evals=1, outcomes=["rejected"], nontrivial=[])
    v0, _ = check_state(cfg, g0)
    if v0:
        return dict(viol=v0, evals=1, states=1)
    sizes = [(s.n, s.b) for s in gens.streams(cfg, g0)]
    depth = max(2 * math.ceil(n / b) + 2 for n, b in sizes)

    jitted = cfg["kind"] in ("ode", "statio", "nonstatio") and (sum(map(ord, str(sorted(cfg.items())))) % 3 == 0)
    if jitted and not _JJ:
        import jax
        _JJ.append(jax.jit(lambda gg: gg.get_batch()))  # the way jinns.solve jits its draws

    def step(g, op, hist):
        g2, batch = (_JJ[0](g) if jitted else g.get_batch())
        v, _ = check_state(cfg, g2)
        v += check_batch(cfg, batch)
        return g2, v

    def canon(g):
        return tuple(s.cursor(g) for s in gens.streams(cfg, g)) + (hash(np.asarray(g.key if cfg["kind"] != "param" else 0).tobytes()),)

    st = explore(g0, lambda s, h: ["G"], step, canon, depth, outcome=lambda g: str(tuple(s.cursor(g) for s in gens.streams(cfg, g))))
    nontriv = [f"hist|{cfg['kind']}|{cfg.get('dim')}|{cfg.get('method')}|{sizes}|{cfg.get('min_pts', cfg.get('tmin'))}|{cfg.get('cartesian')}|{case['x64']}"]
    return st.as_result({"nontrivial": nontriv, "sample": {"cfg": cfg, "ops": st.sample_trace}})
