"""C17 — refinement adds the highest-residual candidates and keeps active points.

Machine as C16 (ops B = get_batch, T = trigger_rar) on *recording* subclasses of the
real generators: the public samplers report the concrete candidate sample of each
step through jax.debug.callback.  Every word over {T, B} up to the depth bound."""
from __future__ import annotations

import warnings
from collections import Counter

import numpy as np
from jinns.solver._rar import init_rar, trigger_rar

from jmc.core import rarlib
from jmc.core.explorer import explore
from jmc.core.refmodels import V

ID = "C17"
LEVEL = "model_checking"
X64 = False
RULE = (
    "complete enumeration of generator kind {ODE, stationary 2-D, non-stationary 2-D, 1-D variants} x landscape (3 analytic affine "
    "residuals incl. sign changes) x (n_start, selected, candidates, capacity) x time/space start counts equal or not x key; per "
    "configuration every word over {T=refine, B=draw} up to the depth bound on the real generator.  Non-trivial = a word in which at "
    "least one refinement step fired after a draw; distinct by configuration."
)
ASSUMPTIONS = [
    "candidates are observed through harness-side subclasses overriding the public samplers (no source hook)",
    "top-k membership is only decided when the k-th and (k+1)-th squared residuals differ by > 1e-5 relative (else the step is counted ambiguous)",
    "active points = slots with non-zero sampling probability (anchor: p_times / p_omega)",
]
BOUNDS = {"quick": {"depth": 6, "keys": 1}, "thorough": {"depth": 8, "keys": 2}}

LANDS = [dict(wt=1.3, wx=[3.0, 0.1], b=-0.7, c=0.25), dict(wt=-2.0, wx=[-1.0, 2.5], b=1.0, c=0.0), dict(wt=0.4, wx=[0.3, -0.2], b=0.0, c=3.0)]


def cases(tier, seed):
    B = BOUNDS[tier]
    keys = [seed + 91, 23][: B["keys"]]
    out = []
    sizes = [
        # (nt_start, sel_t, cand_t, nt), (n_start, sel_x, cand_x, n)
        ((2, 1, 4, 5), (2, 1, 3, 5)),
        ((3, 2, 5, 9), (2, 2, 4, 8)),   # time start != space start
        ((2, 2, 4, 8), (3, 1, 4, 6)),
        ((2, 1, 3, 4), (4, 2, 5, 8)),
        ((2, 2, 4, 5), (3, 2, 4, 6)),   # free slots (3) not a multiple of the selected size (2): exhausted after one step
    ]
    for (kind, dim) in (("ode", 0), ("statio", 2), ("nonstatio", 2), ("statio", 1), ("nonstatio", 1)):
        for li, land in enumerate(LANDS):
            for si, (st, sx) in enumerate(sizes):
                for key in keys:
                    if dim == 1 and (li > 0 or si > 1):
                        continue
                    if tier == "quick" and (li + si) % 2 and kind != "nonstatio" and si != 4:
                        continue
                    cfg = dict(kind=kind, dim=dim, start=0 if si % 2 == 0 else 1, every=1 if li != 1 else 2, key=key, **land)
                    if kind in ("ode", "nonstatio"):
                        cfg.update(nt_start=st[0], sel_t=st[1], cand_t=st[2], nt=st[3], bt=1 + si % 2)
                    if kind in ("statio", "nonstatio"):
                        cfg.update(n_start=sx[0], sel_x=sx[1], cand_x=sx[2], n=sx[3], bx=1 + (si + 1) % 2)
                    out.append(dict(cfg=cfg, depth=B["depth"]))
                    if li == 0 and si in (0, 1):
                        # the equation declares its parameter heterogeneous (a function of the point): candidates are ranked by the
                        # residual the loss uses, i.e. with the heterogeneous value
                        out.append(dict(cfg=dict(cfg, hetero=True), depth=B["depth"]))
                    if kind in ("ode", "statio") and li == 0 and si in (0, 2):
                        # vector-valued residual: the squared residual is the squared norm over its components
                        out.append(dict(cfg=dict(cfg, ncomp=2), depth=B["depth"]))
                        # a system loss with two equations of different landscapes: candidates ranked by the sum over the
                        # equations of the squared residuals
                        out.append(dict(cfg=dict(cfg, system=2), depth=B["depth"]))
    out.sort(key=lambda c: (c["cfg"]["dim"] == 1, c["cfg"]["kind"] != "ode"))
    return out


def _topk_ok(vals, k):
    s = np.sort(vals)[::-1]
    if k >= len(s):
        return True
    return (s[k - 1] - s[k]) > 1e-5 * max(abs(s[k - 1]), 1e-12)


def run_case(case):
    cfg = case["cfg"]
    site = f"rar/{cfg['kind']}{cfg['dim'] or ''}"
    with warnings.catch_warnings():
        warnings.simplefilter("ignore")
        g0, loss, params, (lo, hi) = rarlib.build(cfg, record=True)
    g0, t_fun, f_fun = init_rar(g0)
    rarlib.drain()
    stats = {"steps": 0, "ambiguous": 0, "after_draw": 0}
    has_t = cfg["kind"] in ("ode", "nonstatio")
    has_x = cfg["kind"] in ("statio", "nonstatio")

    def step(state, op, hist):
        g, i = state
        before = rarlib.View(cfg, g)
        v = []
        if op == "B":
            g2, batch = g.get_batch()
            rarlib.drain()
            after = rarlib.View(cfg, g2)
            for w, has in (("t", has_t), ("x", has_x)):
                if has and before.active(w) != after.active(w):
                    v.append(V(f"{site}/{'times' if w == 't' else 'omega'}", "draw_changed_the_active_point_set",
                               f"{before.active(w)} -> {after.active(w)}"))
            # NOTE: with b not dividing the active count the clamped slice may serve a not-yet-active
            # pre-allocated slot; no listed property forbids that, so it is not checked here.
            return (g2, i), v
        _, _, g2 = trigger_rar(i, loss, params, g, t_fun, f_fun)
        rec = rarlib.drain()
        after = rarlib.View(cfg, g2)
        stepped = after.iter_nb != before.iter_nb
        if not stepped:
            for w, has in (("t", has_t), ("x", has_x)):
                if has and (before.active(w) != after.active(w)):
                    v.append(V(site, "store_changed_without_a_step", ""))
            return (g2, i + 1), v
        stats["steps"] += 1
        if "B" in hist:
            stats["after_draw"] += 1
        cand_t = [a for tag, a in rec if tag == "t"]
        cand_x = [a for tag, a in rec if tag == "x"]
        ct = cand_t[-1] if cand_t else None
        cx = cand_x[-1] if cand_x else None
        if (has_t and (ct is None or ct.shape != (cfg["cand_t"],))) or (has_x and (cx is None or cx.shape != (cfg["cand_x"], cfg["dim"]))):
            return (g2, i + 1), [V(site, "candidate_sample_not_observed_or_wrong_size", f"t={None if ct is None else ct.shape} x={None if cx is None else cx.shape}")]
        if has_t and not (np.all(ct >= 0.0) and np.all(ct <= 1.0)):
            v.append(V(f"{site}/times", "candidate_outside_domain", f"{ct}"))
        if has_x and not all(np.all(cx[:, a] >= np.float32(lo[a])) and np.all(cx[:, a] <= np.float32(hi[a])) for a in range(cfg["dim"])):
            v.append(V(f"{site}/omega", "candidate_outside_domain", f"{cx}"))
        # expected additions
        exp_t = exp_x = None
        if cfg["kind"] == "ode":
            r2 = rarlib.residual_sq(cfg, t=ct)
            ok = _topk_ok(r2, cfg["sel_t"])
            exp_t = ct[np.argsort(r2)[::-1][: cfg["sel_t"]]].tolist()
        elif cfg["kind"] == "statio":
            r2 = rarlib.residual_sq(cfg, x=cx)
            ok = _topk_ok(r2, cfg["sel_x"])
            exp_x = [tuple(r) for r in cx[np.argsort(r2)[::-1][: cfg["sel_x"]]].tolist()]
        else:
            grid = np.array([[rarlib.residual_sq(cfg, t=ct[a], x=cx[b]) for b in range(len(cx))] for a in range(len(ct))])
            flat = grid.ravel()
            kmax = max(cfg["sel_t"], cfg["sel_x"])
            ok = all(_topk_ok(flat, k) for k in range(1, kmax + 1))
            order = np.argsort(flat)[::-1]
            ti, xi = np.unravel_index(order, grid.shape)
            exp_t = ct[ti[: cfg["sel_t"]]].tolist()
            exp_x = [tuple(r) for r in cx[xi[: cfg["sel_x"]]].tolist()]
        if not ok:
            stats["ambiguous"] += 1
        for w, has, exp, name in (("t", has_t, exp_t, "times"), ("x", has_x, exp_x, "omega")):
            if not has:
                continue
            b_act, a_act = Counter(before.active(w)), Counter(after.active(w))
            if b_act - a_act:
                v.append(V(f"{site}/{name}", "active_point_lost_in_a_refinement_step",
                           f"step {after.iter_nb}: lost {list((b_act - a_act).elements())} (start counts: times {cfg.get('nt_start')} space {cfg.get('n_start')})"))
                continue
            added = a_act - b_act
            if ok and added != Counter(exp):
                cand = ct if w == "t" else cx
                in_cand = all(any(np.array_equal(np.asarray(p), np.asarray(c)) for c in np.asarray(cand).tolist()) for p in added.elements())
                kind = "added_points_are_not_the_top_residual_candidates" if in_cand else "added_points_are_not_candidates_of_this_step"
                if not added:
                    kind = "points_of_the_step_not_active_afterwards"
                v.append(V(f"{site}/{name}", kind, f"step {after.iter_nb}: active set gained {sorted(added.elements())}, expected {sorted(exp)}"))
        return (g2, i + 1), v

    def canon(state):
        g, i = state
        return (i, rarlib.View(cfg, g).counts())

    st = explore((g0, 0), lambda s, h: ["T", "B"], step, canon, case["depth"], outcome=lambda s: str(canon(s)))
    nontriv = [str({k: v for k, v in cfg.items() if k != "key"})] if stats["after_draw"] else []
    res = st.as_result({"nontrivial": nontriv, "sample": {"cfg": cfg, "ops": "".join(st.sample_trace or []), **stats}})
    return res
