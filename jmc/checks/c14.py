"""C14 — space-time batches are exact cartesian products (or exact pairings).

Machine: state = real CubicMeshPDENonStatio; op = get_batch.  After every draw the
oracle decomposes the returned batch into its temporal and spatial factors and
requires (i) exact product / pairing structure, time-major, column 0 = time,
(ii) the factors are rows of the generator's own stores, pairwise distinct,
(iii) the border batch uses the same temporal factor on every facet."""
from __future__ import annotations

import numpy as np
import equinox as eqx

from jmc.core import gens
from jmc.core.explorer import explore
from jmc.core.refmodels import V

ID = "C14"
LEVEL = "model_checking"
X64 = False
RULE = (
    "complete enumeration of temporal/spatial/border batch sizes in {1,2,3}^3 (equal sizes in pairing mode) x dim in {1,2} x "
    "{cartesian, paired} x 2 store-size variants x 3 keys x {eager, jit}; per configuration the get_batch history of the "
    "given depth (crossing a reshuffle of each store) is executed and every batch decomposed; plus one draw for every (temporal, "
    "spatial) batch-size pair up to the sweep bound (12 quick, 24 thorough).  Non-trivial = batch with "
    "at least 2 time and 2 space rows (orders distinguishable); distinct by (dim, mode, sizes, variant, exec mode)."
)
ASSUMPTIONS = [
    "points are identified by value (uniform samples; time interval disjoint from the spatial box)",
    "3 PRNG keys per configuration (one derived from VERIF_SEED)",
    "batch sizes <= 3 (thorough 4) per factor for the histories, <= 12 (thorough 24) for single draws",
]
BOUNDS = {"quick": {"sizes": [1, 2, 3], "depth": 5, "keys": 2, "sweep": 12}, "thorough": {"sizes": [1, 2, 3, 4], "depth": 8, "keys": 3, "sweep": 24}}


def cases(tier, seed):
    B = BOUNDS[tier]
    S = B["sizes"]
    keys = [seed + 31, 3, 4242][: B["keys"]]
    out = []
    for dim in (1, 2):
        for cart in (True, False):
            combos = []
            for bt in S:
                for bx in S:
                    if not cart and bt != bx:
                        continue
                    bbs = S if dim == 2 else [2]
                    for bb in bbs:
                        if not cart and dim == 2 and bb != bt:
                            continue
                        combos.append((bt, bx, bb))
            for (bt, bx, bb) in combos:
                for variant in (0, 1):
                    nt = 2 * bt if variant == 0 else 2 * bt + 1
                    n = 2 * bx + 1 if variant == 0 else bx
                    nf = bb + 1 if variant == 0 else 2 * bb
                    for ki, key in enumerate(keys):
                        for mode in (("eager", "jit", "jaxjit") if (tier == "thorough" or ki == 0) else ("eager",)):
                            cfg = dict(kind="nonstatio", nt=nt, bt=bt, n=n, bx=bx, dim=dim,
                                       min_pts=[-1.0] if dim == 1 else [-1.0, 3.0], max_pts=[2.0] if dim == 1 else [2.0, 4.0],
                                       tmin=10.0, tmax=12.0, nb=4 * nf if dim == 2 else 2, bb=bb if dim == 2 else 2, cartesian=cart, key=key)
                            out.append(dict(cfg=cfg, depth=B["depth"], mode=mode))
    for with_border in (False,):
        for bt, bx in ((2, 3), (3, 2)):
            cfg = dict(kind="nonstatio", nt=4, bt=bt, n=5, bx=bx, dim=2, min_pts=[-1.0, 3.0], max_pts=[2.0, 4.0], tmin=10.0, tmax=12.0,
                       nb=None, bb=None, cartesian=True, key=keys[0])
            out.append(dict(cfg=cfg, depth=B["depth"], mode="eager"))
    # size sweep: every (temporal, spatial) batch-size pair up to the sweep bound, one draw each (index arithmetic of the
    # product must be exact for every pair, not only for small or power-of-two sizes)
    for bt in range(1, B["sweep"] + 1):
        for bx in range(1, B["sweep"] + 1):
            if bt <= 3 and bx <= 3:
                continue
            dim = 1 + (bt + bx) % 2
            cfg = dict(kind="nonstatio", nt=bt + 1, bt=bt, n=bx + 2, bx=bx, dim=dim, min_pts=[-1.0] if dim == 1 else [-1.0, 3.0],
                       max_pts=[2.0] if dim == 1 else [2.0, 4.0], tmin=10.0, tmax=12.0, nb=None if dim == 2 else 2, bb=None if dim == 2 else 2,
                       cartesian=True, key=keys[0])
            out.append(dict(cfg=cfg, depth=1, mode="eager"))
    out.sort(key=lambda c: (c["cfg"]["bt"] * c["cfg"]["bx"], c["mode"] != "eager"))
    return out


_JIT = []


def _draw(g, mode):
    if mode == "eager":
        return g.get_batch()
    if not _JIT:
        import jax
        _JIT.append(eqx.filter_jit(lambda gg: gg.get_batch()))
        _JIT.append(jax.jit(lambda gg: gg.get_batch()))  # the way jinns.solve jits its draws (integer fields are traced)
    return _JIT[1 if mode == "jaxjit" else 0](g)


def _members(rows_, store):
    s = {gens.label(r) for r in store}
    return all(gens.label(r) in s for r in rows_)


def check_batch(cfg, g2, batch):
    v = []
    d, bt, bx, cart = cfg["dim"], cfg["bt"], cfg["bx"], cfg["cartesian"]
    site = f"nonstatio{d}/{'cartesian' if cart else 'paired'}"
    tx = np.asarray(batch.times_x_inside_batch)
    times, omega = np.asarray(g2.times), np.asarray(g2.omega)
    exp_rows = bt * bx if cart else bx
    if tx.shape != (exp_rows, 1 + d):
        return [V(site, "inside_batch_shape", f"{tx.shape} expected ({exp_rows},{1 + d})")]
    if cart:
        T = np.array([tx[i * bx, 0] for i in range(bt)])
        X = tx[:bx, 1:]
        exp = np.array([[T[i], *X[j]] for i in range(bt) for j in range(bx)], dtype=tx.dtype).reshape(exp_rows, 1 + d)
    else:
        T, X = tx[:, 0], tx[:, 1:]
        exp = tx
    if not np.array_equal(tx, exp):
        v.append(V(site, "inside_batch_is_not_the_time_major_product", f"bt={bt} bx={bx} batch={tx.tolist()}"))
    if not _members(T[:, None], times[:, None]) or len(set(T.tolist())) != bt:
        v.append(V(site, "time_column_is_not_a_temporal_batch", f"column 0 factor {T.tolist()} not {bt} distinct stored times"))
    if not _members(X, omega) or len({gens.label(r) for r in X}) != bx:
        v.append(V(site, "space_columns_are_not_a_spatial_batch", f"factor {X.tolist()}"))
    tb = batch.times_x_border_batch
    if cfg.get("bb") is None:
        if tb is not None:
            v.append(V(site, "border_batch_without_border", ""))
        return v
    tb = np.asarray(tb)
    if d == 1:
        if tb.shape != (bt, 2, 2):
            return v + [V(site, "border_batch_shape", f"{tb.shape} expected ({bt},2,2)")]
        ends = np.asarray([cfg["min_pts"][0], cfg["max_pts"][0]], tb.dtype)
        for f in range(2):
            if not np.array_equal(tb[:, 0, f], np.asarray(T)) or not np.all(tb[:, 1, f] == ends[f]):
                v.append(V(site, "1d_border_batch_is_not_times_x_end_points", f"facet {f}: {tb[:, :, f].tolist()} T={np.asarray(T).tolist()}"))
        return v
    bb = cfg["bb"]
    exp_rows = bt * bb if cart else bb
    if tb.shape != (exp_rows, 3, 4):
        return v + [V(site, "border_batch_shape", f"{tb.shape} expected ({exp_rows},3,4)")]
    border = np.asarray(g2.omega_border)  # (nf, 2, 4)
    Bf = tb[:bb, 1:, :] if cart else tb[:, 1:, :]
    if not _members(gens.rows(Bf), gens.rows(border)) or len({gens.label(r) for r in gens.rows(Bf)}) != bb:
        v.append(V(site, "border_factor_is_not_a_border_batch", ""))
    for f in range(4):
        if cart:
            exp = np.array([[T[i], *Bf[j, :, f]] for i in range(bt) for j in range(bb)], dtype=tb.dtype).reshape(exp_rows, 3)
        else:
            exp = np.concatenate([np.asarray(T)[:, None], Bf[:, :, f]], axis=1)
        if not np.array_equal(tb[:, :, f], exp):
            v.append(V(site, "border_facet_is_not_the_time_major_product_with_the_same_temporal_batch",
                       f"facet {f} bt={bt} bb={bb}: {tb[:, :, f].tolist()} T={np.asarray(T).tolist()}"))
            break
    return v


def run_case(case):
    cfg, mode = case["cfg"], case["mode"]
    g0 = gens.build(cfg)
    for _ in range(5):
        ok = all(len({gens.label(r) for r in s.store(g0)}) == s.store(g0).shape[0] for s in gens.streams(cfg, g0))
        if ok:
            break
        cfg = dict(cfg, key=cfg["key"] + 1000)
        g0 = gens.build(cfg)

    def step(g, op, hist):
        g2, batch = _draw(g, mode)
        return g2, check_batch(cfg, g2, batch)

    def canon(g):
        return tuple(s.cursor(g) for s in gens.streams(cfg, g))

    st = explore(g0, lambda s, h: ["G"], step, canon, case["depth"], outcome=lambda g: str(canon(g)))
    nontriv = []
    if cfg["bt"] >= 2 and cfg["bx"] >= 2:
        nontriv = [f"{cfg['dim']}|{cfg['cartesian']}|{cfg['bt']},{cfg['bx']},{cfg.get('bb')}|{cfg['nt']},{cfg['n']}|{mode}"]
    return st.as_result({"nontrivial": nontriv, "sample": {"cfg": cfg, "mode": mode, "ops": st.sample_trace}})
