"""C04 — the boundary term enforces Dirichlet / outward-normal Neumann conditions per facet.

Two complete products (d in {1,2} x {stationary, non-stationary}), batches drawn from the
real generators on an anisotropic box:
 (i)  global condition x component selection x f in {0, non-zero} x return shape of f x
      border batch size x number of time points x {cartesian, paired};
 (ii) every per-facet assignment facet -> {none, dirichlet, neumann} with a different f and
      a different component on every facet.
Oracle: sum_facets w * mean_rows sum_c (D u_c - f)^2 with D = identity or the exact
derivative along the outward unit normal (exact polynomial calculus)."""
from __future__ import annotations

import itertools

import numpy as np
import jax
import jax.numpy as jnp
import jinns

from jmc.core import losslib as L
from jmc.core.refmodels import V

ID = "C04"
LEVEL = "exploration"
X64 = True
RULE = (
    "complete enumeration of (i) d x {stationary, non-stationary} x {dirichlet, neumann} x component selection (default / int / "
    "slice on 1- and 2-output networks) x f {0, non-zero} x return shape {float, 0-d, (1,)} x border batch size x time points x "
    "{cartesian, paired}; (ii) every per-facet assignment in {none, dirichlet, neumann}^(2d) minus all-none.  Non-trivial = "
    "expected value > 0; distinct by configuration."
)
ASSUMPTIONS = [
    "facet f of a border batch is the f-th facet in the order xmin, xmax, ymin, ymax (checked geometrically by C08)",
    "Neumann conditions are applied to exactly one selected component (the implementation squeezes the selection)",
    "x64; 1e-9 relative",
]
BOUNDS = {"quick": {"bb": [1, 2], "nt": [1, 2]}, "thorough": {"bb": [1, 2, 3], "nt": [1, 2, 3]}}
BOX = ([-1.0, 0.5], [2.0, 1.5])
FACETS = ["xmin", "xmax", "ymin", "ymax"]


def cases(tier, seed):
    B = BOUNDS[tier]
    out = []
    for d in (1, 2):
        for kind in ("statio", "nonstatio"):
            for cond in ("dirichlet", "neumann"):
                sels = [(1, None)] + ([(2, None), (2, 0), (2, 1), (2, "0:2"), (2, "1:2")] if cond == "dirichlet" else [(2, 0), (2, 1), (2, "1:2")])
                for (n_out, sel) in sels:
                    for fkind in ("zero", "float", "0d", "1"):
                        for bb in (B["bb"] if d == 2 else [1]):
                            for nt in (B["nt"] if kind == "nonstatio" else [1]):
                                for cart in ((True, False) if (kind == "nonstatio" and d == 2 and nt == bb) else (True,)):
                                    out.append(dict(type="global", d=d, kind=kind, cond=cond, n_out=n_out, sel=sel, f=fkind, bb=bb, nt=nt, cart=cart, key=seed + 3))
            for assign in itertools.product((None, "dirichlet", "neumann"), repeat=2 * d):
                if not any(assign):
                    continue
                if tier == "quick" and d == 2 and sum(a is not None for a in assign) > 2:
                    continue
                out.append(dict(type="facets", d=d, kind=kind, assign=list(assign), bb=2 if d == 2 else 1, nt=2, cart=True, key=seed + 3))
    out.sort(key=lambda c: (c["type"] != "global", c["d"], c["kind"] != "statio", c["bb"] * c["nt"]))
    return out


def draw_batch(case):
    d, kind = case["d"], case["kind"]
    key = jax.random.PRNGKey(case["key"])
    lo, hi = tuple(BOX[0][:d]), tuple(BOX[1][:d])
    bb = case["bb"] if d == 2 else 2
    if kind == "statio":
        g = jinns.data.CubicMeshPDEStatio(key=key, n=4, nb=4 * (bb + 1) if d == 2 else 2, omega_batch_size=2, omega_border_batch_size=bb, dim=d, min_pts=lo, max_pts=hi)
    else:
        nt = case["nt"]
        g = jinns.data.CubicMeshPDENonStatio(key=key, n=2 * nt + 2, nb=4 * (bb + 1) if d == 2 else 2, nt=nt + 1, omega_batch_size=nt if not case["cart"] else 2,
                                             omega_border_batch_size=bb, temporal_batch_size=nt, dim=d, min_pts=lo, max_pts=hi, tmin=0.1, tmax=0.9,
                                             cartesian_product=case["cart"])
    _, batch = g.get_batch()
    return batch


def f_base_statio(j, d):
    return lambda dx: 0.1 * (j + 1) + 0.2 * dx[(j + 1) % d]


def f_base_nonstatio(j, d):
    return lambda t, dx: 0.1 * (j + 1) + 0.2 * dx[(j + 1) % d] - 0.3 * t[0]


def f_np(j, d, kind, pts, t=None):
    v = 0.1 * (j + 1) + 0.2 * pts[:, (j + 1) % d]
    if kind == "nonstatio":
        v = v - 0.3 * t
    return v


def make_f(fkind, j, d, kind):
    base = f_base_statio(j, d) if kind == "statio" else f_base_nonstatio(j, d)
    if fkind == "zero":
        return (lambda dx: 0) if kind == "statio" else (lambda t, dx: 0)
    if fkind == "float":
        return (lambda dx: 0.5) if kind == "statio" else (lambda t, dx: 0.5)
    if fkind == "0d":
        return base
    return (lambda dx: jnp.reshape(base(dx), (1,))) if kind == "statio" else (lambda t, dx: jnp.reshape(base(t, dx), (1,)))


def sel_of(sel):
    if sel is None or isinstance(sel, int):
        return sel
    a, b = sel.split(":")
    return jnp.s_[int(a):int(b)]


def comps_of(sel, n_out):
    if sel is None:
        return list(range(n_out))
    if isinstance(sel, int):
        return [sel]
    a, b = sel.split(":")
    return list(range(int(a), int(b)))


def expected_facet(case, coef, expo, batch_np, f, cond, comps, fvals):
    """mean over rows of sum_c (D u_c - f)^2 on facet f"""
    d, kind = case["d"], case["kind"]
    if kind == "statio":
        X = batch_np[..., f].reshape(-1, d)
        pts, tcol = X, None
    else:
        TX = batch_np[..., f].reshape(-1, 1 + d)
        pts, tcol = TX, TX[:, 0]
        X = TX[:, 1:]
    off = 0 if kind == "statio" else 1
    axis, sign = (f // 2, -1.0 if f % 2 == 0 else 1.0)
    J = L.jets(coef, expo, pts, [(), (off + axis,)])
    fv = fvals(X, tcol)
    tot = 0.0
    for c in comps:
        Du = J[()][c] if cond == "dirichlet" else sign * J[(off + axis,)][c]
        tot = tot + (Du - fv) ** 2
    return float(np.mean(tot))


def run_case(case):
    d, kind = case["d"], case["kind"]
    batch = draw_batch(case)
    bnp = np.asarray(batch.border_batch if kind == "statio" else batch.times_x_border_batch, dtype=np.float64)
    site = f"boundary/{kind}{d}d"
    w = 1.3
    if case["type"] == "global":
        n_out, sel, cond = case["n_out"], case["sel"], case["cond"]
        u, coef, expo = L.make_u(kind, d, n_out, deg=2, salt=1)
        f = make_f(case["f"], 0, d, kind)
        conds = {fc: cond for fc in range(2 * d)}
        comps = {fc: comps_of(sel, n_out) for fc in range(2 * d)}
        if case["f"] == "zero":
            fv = {fc: (lambda X, t: 0.0) for fc in range(2 * d)}
        elif case["f"] == "float":
            fv = {fc: (lambda X, t: 0.5) for fc in range(2 * d)}
        else:
            fv = {fc: (lambda X, t: f_np(0, d, kind, X, t)) for fc in range(2 * d)}
        # the documented spellings of the condition names (case-insensitive)
        spell = {"dirichlet": ["dirichlet", "Dirichlet"], "neumann": ["von neumann", "vonneumann", "Von Neumann"]}[cond]
        kw = dict(omega_boundary_fun=f, omega_boundary_condition=spell[(case["bb"] + case["nt"] + case["n_out"]) % len(spell)], omega_boundary_dim=sel_of(sel))
        site += f"/{cond}"
    else:
        n_out = 2
        u, coef, expo = L.make_u(kind, d, n_out, deg=2, salt=1)
        names = FACETS[: 2 * d]
        conds, comps, fv, fdict, cdict, ddict = {}, {}, {}, {}, {}, {}
        for j, nm in enumerate(names):
            a = case["assign"][j]
            cdict[nm] = None if a is None else (a if a == "dirichlet" else "von neumann")
            fdict[nm] = make_f("0d", j, d, kind)
            ddict[nm] = j % 2
            if a is not None:
                conds[j], comps[j] = a, [j % 2]
                fv[j] = (lambda X, t, j=j: f_np(j, d, kind, X, t))
        kw = dict(omega_boundary_fun=fdict, omega_boundary_condition=cdict, omega_boundary_dim=ddict)
        site += "/per_facet"
    params = jinns.parameters.Params(nn_params=u.init_params(), eq_params={"a": jnp.asarray(0.7)})
    if kind == "statio":
        loss = L.quiet(jinns.loss.LossPDEStatio, u=u, dynamic_loss=None, loss_weights=jinns.loss.LossWeightsPDEStatio(boundary_loss=w), params=params, **kw)
    else:
        loss = L.quiet(jinns.loss.LossPDENonStatio, u=u, dynamic_loss=None, loss_weights=jinns.loss.LossWeightsPDENonStatio(boundary_loss=w), params=params, **kw)
    exp = sum(w * expected_facet(case, coef, expo, bnp, fc, conds[fc], comps[fc], fv[fc]) for fc in conds)
    total, terms = L.jit_eval(loss, params, batch)
    got = float(terms["boundary_loss"])
    v = []
    if abs(got - exp) > 1e-9 * (1 + abs(exp)):
        rows = bnp.shape[0]
        hint = ""
        if exp != 0 and abs(got / exp - rows) < 1e-6 and rows > 1:
            hint = f" (= expected x {rows} rows: summed over the batch instead of averaged)"
        cfg = {k: v_ for k, v_ in case.items() if k not in ("key", "type")}
        v.append(V(site, "boundary_term_differs_from_definition", f"{cfg}: got {got} expected {exp}{hint}"))
    return dict(viol=v, evals=1, nontrivial=[str({k: v_ for k, v_ in case.items() if k != 'key'})] if exp > 0 else [],
                outcomes=[f"{site}|{round(exp, 6)}"], sample={"case": case, "expected": exp, "got": got})
