"""C12 — per-sample equation parameters and heterogeneous parameters are aligned.

(A) every subset of batched keys among {a (0-d), b ((1,)), c (vector)} x loss kind (ODE,
stationary, non-stationary, SystemLossODE, SystemLossPDE) x where the parameter is consumed
(network input transform, equation, both): every returned term == per-sample NumPy formula;
gradient w.r.t. unbatched keys == finite-difference gradient of that formula, gradient
w.r.t. batched keys == 0; the caller's parameter object is left unchanged.
(B) every heterogeneity map key -> {undeclared, None, function of the point} (3^3) per
equation type."""
from __future__ import annotations

import itertools
import copy

import numpy as np
import jax
import jax.numpy as jnp
import equinox as eqx
import jinns

from jmc.core import losslib as L
from jmc.core.refmodels import V

ID = "C12"
LEVEL = "exploration"
X64 = True
RULE = (
    "(A) complete enumeration of subsets of batched keys (2^3) x 5 loss kinds x consumption site {network, equation, both} x batch "
    "size {2,3}; (B) complete enumeration of heterogeneity maps {undeclared, None, function}^3 x 3 equation types.  Non-trivial = at "
    "least one batched / heterogeneous key that changes the value w.r.t. the caller's parameters; distinct by configuration."
)
ASSUMPTIONS = [
    "parameter batches have as many rows as the term they accompany (documented requirement); no normalisation / boundary term is combined with a parameter batch",
    "equations are algebraic in (u, point, parameters) so that the per-sample oracle needs no chain rule",
    "x64; 1e-10 relative on values, 1e-6 on finite-difference gradients",
]
BOUNDS = {"quick": {"bs": [2]}, "thorough": {"bs": [2, 3]}}
KEYS3 = ["a", "b", "c"]
OBS_B = np.array([[0.9], [-1.1], [0.35], [0.6]])
SYS_W = {"zz": 2.0, "aa": 0.5}
CALLER = {"a": np.asarray(0.7), "b": np.asarray([-0.4]), "c": np.asarray([0.3, 1.1])}


def cases(tier, seed):
    out = []
    for kind in ("ode", "statio", "nonstatio", "sys_ode", "sys_pde"):
        for r in range(4):
            for sub in itertools.combinations(KEYS3, r):
                for site in ("network", "equation", "both"):
                    for b in BOUNDS[tier]["bs"]:
                        out.append(dict(type="batch", kind=kind, batched=list(sub), site=site, b=b, obs_param=False))
                    if site == "both" and "a" in sub:
                        # the caller's value of a batched key is only a placeholder; it may be an integer
                        out.append(dict(type="batch", kind=kind, batched=list(sub), site=site, b=2, obs_param=False, placeholder="int"))
                    if site == "both":
                        # the observation part carries an observed column of 'b' as well (it overrides both the caller's
                        # value and the parameter batch, for the observation term only)
                        out.append(dict(type="batch", kind=kind, batched=list(sub), site=site, b=2, obs_param=True))
    for kind in ("ode", "statio", "nonstatio"):
        for hmap in itertools.product(("undeclared", "none", "fun"), repeat=3):
            out.append(dict(type="hetero", kind=kind, hmap=list(hmap)))
    out.sort(key=lambda c: (c["type"] != "batch", len(c.get("batched", [])), c["kind"]))
    return out


# ------------------------------------------------------------------ problem
def sc(x):
    return jnp.reshape(x, (-1,))[0]


def in_tr_net(inp, p):
    e = p.eq_params
    return inp * (1.0 + 0.1 * sc(e["a"])) + 0.05 * sc(e["b"]) + 0.01 * e["c"][0] - 0.02 * e["c"][1]


def res_formula(use_eq, uval, z0, a, b, c):
    if not use_eq:
        return uval + 0.5 * z0
    return a * uval + b * z0 + c[..., 0] - 0.5 * c[..., 1]


class EqO(jinns.loss.ODE):
    use_eq: bool = eqx.field(static=True, default=True, kw_only=True)
    key: str = eqx.field(static=True, default=None, kw_only=True)
    scale: float = eqx.field(static=True, default=1.0, kw_only=True)

    def equation(self, t, u, params):
        uu = u[self.key] if self.key else u
        pp = params.extract_params(self.key) if self.key else params
        e = pp.eq_params
        return self.scale * jnp.reshape(res_formula(self.use_eq, uu(t, pp)[0], jnp.reshape(t, ()), sc(e["a"]), sc(e["b"]), e["c"]), (1,))


class EqS(jinns.loss.PDEStatio):
    use_eq: bool = eqx.field(static=True, default=True, kw_only=True)
    key: str = eqx.field(static=True, default=None, kw_only=True)
    scale: float = eqx.field(static=True, default=1.0, kw_only=True)

    def equation(self, x, u, params):
        uu = u[self.key] if self.key else u
        pp = params.extract_params(self.key) if self.key else params
        e = pp.eq_params
        return self.scale * jnp.reshape(res_formula(self.use_eq, uu(x, pp)[0], x[0], sc(e["a"]), sc(e["b"]), e["c"]), (1,))


class EqN(jinns.loss.PDENonStatio):
    use_eq: bool = eqx.field(static=True, default=True, kw_only=True)
    key: str = eqx.field(static=True, default=None, kw_only=True)
    scale: float = eqx.field(static=True, default=1.0, kw_only=True)

    def equation(self, t, x, u, params):
        uu = u[self.key] if self.key else u
        pp = params.extract_params(self.key) if self.key else params
        e = pp.eq_params
        return self.scale * jnp.reshape(res_formula(self.use_eq, uu(t, x, pp)[0], t[0], sc(e["a"]), sc(e["b"]), e["c"]), (1,))


def base_kind(kind):
    return {"sys_ode": "ode", "sys_pde": "nonstatio"}.get(kind, kind)


def build(case, hetero=None):
    kind = case["kind"]
    bk = base_kind(kind)
    d = 0 if bk == "ode" else 1
    use_net = case.get("site", "both") in ("network", "both")
    use_eq = case.get("site", "both") in ("equation", "both")
    u, coef, expo = L.make_u(bk, d, 1, deg=2, salt=6, input_transform=in_tr_net if use_net else None)
    eqp = {k: jnp.asarray(CALLER[k]) for k in ("c", "a", "b")}  # non-alphabetical insertion order
    if case.get("placeholder") == "int":
        eqp["a"] = jnp.asarray(1)
    EQC = {"ode": EqO, "statio": EqS, "nonstatio": EqN}[bk]
    sysk = "u" if kind.startswith("sys") else None
    tk = {"Tmax": case["Tmax"]} if case.get("Tmax") and bk != "statio" else {}
    dyn = EQC(use_eq=use_eq, key=sysk, eq_params_heterogeneity=hetero, **tk)
    obs_rows = case.get("b", 2)
    nv = L.nvar_of(bk, d)
    obs = {"pinn_in": jnp.asarray(L.points(obs_rows, nv, salt=8)), "val": jnp.asarray(np.linspace(0.2, 0.6, obs_rows)[:, None]), "eq_params": {}}
    if case.get("obs_param"):
        obs["eq_params"] = {"b": jnp.asarray(OBS_B[:obs_rows])}
    if kind in ("ode", "statio", "nonstatio"):
        params = jinns.parameters.Params(nn_params=u.init_params(), eq_params=eqp)
        if bk == "ode":
            dk = jinns.parameters.DerivativeKeysODE.from_str(params=params, dyn_loss="both", initial_condition="both", observations="both")
            loss = L.quiet(jinns.loss.LossODE, u=u, dynamic_loss=dyn, initial_condition=(0.3, jnp.asarray([0.2])), derivative_keys=dk, params=params)
        elif bk == "statio":
            dk = jinns.parameters.DerivativeKeysPDEStatio.from_str(params=params, dyn_loss="both", observations="both")
            loss = L.quiet(jinns.loss.LossPDEStatio, u=u, dynamic_loss=dyn, derivative_keys=dk, params=params)
        else:
            dk = jinns.parameters.DerivativeKeysPDENonStatio.from_str(params=params, dyn_loss="both", observations="both", initial_condition="both")
            loss = L.quiet(jinns.loss.LossPDENonStatio, u=u, dynamic_loss=dyn, derivative_keys=dk, initial_condition_fun=lambda x: jnp.sin(x), params=params)
        obs_b = obs
    else:
        params = jinns.parameters.ParamsDict(nn_params={"u": u.init_params()}, eq_params=eqp)
        # two equations (the second is twice the first), inserted in non-alphabetical order, with per-key weights written in
        # the other order: sum_eq w_eq * mean r_eq^2 = (SYS_W["zz"] + 4 * SYS_W["aa"]) * mean r^2
        dyn2 = EQC(use_eq=use_eq, key=sysk, eq_params_heterogeneity=hetero, scale=2.0)
        dyn_dict = {"zz": dyn, "aa": dyn2}
        wdyn = {"aa": SYS_W["aa"], "zz": SYS_W["zz"]}
        if kind == "sys_ode":
            loss = L.quiet(jinns.loss.SystemLossODE, u_dict={"u": u}, dynamic_loss_dict=dyn_dict, initial_condition_dict={"u": (0.3, jnp.asarray([0.2]))},
                           loss_weights=jinns.loss.LossWeightsODEDict(dyn_loss=wdyn, initial_condition=1.0, observations=1.0), params_dict=params)
        else:
            loss = L.quiet(jinns.loss.SystemLossPDE, u_dict={"u": u}, dynamic_loss_dict=dyn_dict, initial_condition_fun_dict={"u": lambda x: jnp.sin(x)},
                           loss_weights=jinns.loss.LossWeightsPDEDict(dyn_loss=wdyn, norm_loss=None, boundary_loss=None, observations=1.0, initial_condition=1.0),
                           params_dict=params)
        obs_b = {"u": obs}
    return dict(u=u, coef=coef, expo=expo, loss=loss, params=params, obs=obs_b, obs_raw=obs, bk=bk, d=d, use_net=use_net, use_eq=use_eq, dyn=dyn,
                dyn_factor=(SYS_W["zz"] + 4.0 * SYS_W["aa"]) if kind.startswith("sys") else 1.0)


def rows_of(key, b):
    if key == "a":
        return np.array([[0.5 + 0.4 * i] for i in range(b)])
    if key == "b":
        return np.array([[-0.2 + 0.3 * i] for i in range(b)])
    return np.array([[0.1 + 0.2 * i, 1.5 - 0.3 * i] for i in range(b)])


def oracle_terms(P, pts, obs_raw, vals, obs_over=None):
    """vals: dict key -> (rows, dim) array per sample (batched) or caller value broadcast"""
    bk, d = P["bk"], P["d"]

    def net(z, a, b, c):
        if P["use_net"]:
            z = z * (1.0 + 0.1 * a[:, None]) + 0.05 * b[:, None] + 0.01 * c[:, :1] - 0.02 * c[:, 1:2]
        # rows evaluated one by one (each row its own point)
        return np.array([L.jets(P["coef"], P["expo"], z[i:i + 1], [()])[()][0, 0] for i in range(len(z))])

    B = len(pts)
    a, b, c = vals["a"].reshape(B), vals["b"].reshape(B), vals["c"].reshape(B, 2)
    U = net(pts, a, b, c)
    r = res_formula(P["use_eq"], U, pts[:, 0], a, b, c)
    out = {"dyn_loss": P.get("dyn_factor", 1.0) * float(np.mean(r**2))}
    # observations: row i of the observation table with row i of the batched keys
    zo = np.asarray(obs_raw["pinn_in"])
    ao, bo, co = a[: len(zo)], b[: len(zo)], c[: len(zo)]
    if obs_over:  # observed equation parameters: row i of the observation goes with row i of the observed column
        ao = np.asarray(obs_over["a"]).reshape(-1) if "a" in obs_over else ao
        bo = np.asarray(obs_over["b"]).reshape(-1) if "b" in obs_over else bo
    Uo = net(zo, ao, bo, co)
    out["observations"] = float(np.mean((Uo - np.asarray(obs_raw["val"]).reshape(len(zo), -1 if len(zo) else 1)[:, 0]) ** 2)) if len(zo) else 0.0
    if bk == "ode":
        U0 = net(np.full((B, 1), 0.3), a, b, c)
        out["initial_condition"] = float(np.mean((U0 - 0.2) ** 2))
    elif bk == "nonstatio":
        z0 = np.concatenate([np.zeros((B, 1)), pts[:, 1:]], axis=1)
        U0 = net(z0, a, b, c)
        out["initial_condition"] = float(np.mean((np.sin(pts[:, 1]) - U0) ** 2))
    return out


def snapshot(tree):
    return [(np.asarray(x).shape, np.asarray(x).tobytes()) for x in jax.tree_util.tree_leaves(tree)]


def close(a, b, tol=1e-10):
    return abs(a - b) <= tol * (1 + abs(b))


def run_batch(case):
    P = build(case)
    kind, b = case["kind"], case["b"]
    site = f"param_batch/{kind}"
    nv = L.nvar_of(P["bk"], P["d"])
    pts = L.points(b, nv)
    pb = {k: jnp.asarray(rows_of(k, b)) for k in reversed(case["batched"])} or None
    batch = L.make_batch(P["bk"], pts, param=pb, obs=P["obs"])
    params = P["params"]
    snap = snapshot(params)
    v = []
    total, terms = P["loss"].evaluate(params, batch)  # eager: the mode in which an in-place update of the caller's dict is possible
    terms = {k: float(x) for k, x in terms.items()}
    if snapshot(params) != snap:
        v.append(V(site, "callers_parameters_modified_by_evaluate", f"batched {case['batched']}: eq_params shapes now { {k: np.asarray(x).shape for k, x in params.eq_params.items()} }"))
        return dict(viol=v, evals=1, nontrivial=[str(case)])
    vals = {k: (rows_of(k, b) if k in case["batched"] else np.broadcast_to(CALLER[k].reshape(1, -1), (b, CALLER[k].size))) for k in KEYS3}
    over = {"b": OBS_B[:b]} if case.get("obs_param") else None
    exp = oracle_terms(P, pts, P["obs_raw"], vals, over)
    for k, e in exp.items():
        if not close(terms.get(k, float("nan")), e):
            v.append(V(site, "term_is_not_the_per_sample_formula", f"batched {case['batched']} consumed in {case['site']}: {k} = {terms.get(k)} expected {e}"))
    # gradients (single losses: all their terms are differentiated w.r.t. both groups; the system losses here keep
    # the default network-only keys, so there is nothing to compare for the equation parameters)
    if not v and not kind.startswith("sys") and case.get("placeholder") != "int":
        g = jax.grad(lambda p: P["loss"].evaluate(p, batch)[0])(params)
        h = 1e-6
        for k in KEYS3:
            gk = np.asarray(g.eq_params[k]).reshape(-1)
            if k in case["batched"]:
                if np.any(gk != 0):
                    v.append(V(site, "gradient_flows_to_callers_value_of_a_batched_key", f"key {k}: {gk}"))
                continue
            for comp in range(CALLER[k].size):
                def F(delta):
                    vv = dict(vals)
                    arr = np.array(vv[k], dtype=float)
                    arr[:, comp] += delta
                    vv[k] = arr
                    return sum(oracle_terms(P, pts, P["obs_raw"], vv, over).values())
                fd = (F(h) - F(-h)) / (2 * h)
                if abs(fd - gk[comp]) > 1e-6 * (1 + abs(fd)):
                    v.append(V(site, "gradient_wrt_unbatched_key_is_not_the_sum_of_per_sample_gradients", f"key {k}[{comp}] batched {case['batched']}: {gk[comp]} vs {fd}"))
    changed = bool(case["batched"])
    return dict(viol=v, evals=2, nontrivial=[str(case)] if changed else [], outcomes=[f"{kind}|{case['batched']}|{case['site']}|{round(sum(exp.values()), 6)}"],
                sample={"case": case, "expected_terms": exp})


def run_hetero(case):
    kind = case["kind"]
    site = f"heterogeneity/{kind}"
    funs = {}
    # each heterogeneity function also reads the caller's *raw* value of another key, so an implementation that
    # hands already-replaced parameters to later functions is visible
    other = {"a": "c", "b": "a", "c": "b"}

    def raw(p, k):
        return jnp.reshape(p.eq_params[other[k]], (-1,))[0]

    for k, mode in zip(KEYS3, case["hmap"]):
        if mode == "none":
            funs[k] = None
        elif mode == "fun":
            j = KEYS3.index(k)
            if kind == "ode":
                funs[k] = (lambda t, u, p, j=j, k=k: p.eq_params[k] * 0 + (0.2 + 0.1 * j) + (1.0 + j) * jnp.reshape(t, ()) + 0.1 * raw(p, k))
            elif kind == "statio":
                funs[k] = (lambda x, u, p, j=j, k=k: p.eq_params[k] * 0 + (0.2 + 0.1 * j) + (1.0 + j) * x[0] + 0.1 * raw(p, k))
            else:
                funs[k] = (lambda t, x, u, p, j=j, k=k: p.eq_params[k] * 0 + (0.2 + 0.1 * j) + (1.0 + j) * t[0] + 0.1 * raw(p, k))
    # Tmax != 1: the functions of the map receive the point exactly as the equation does (the user equation ignores Tmax)
    P = build(dict(kind=kind, site="equation", b=2, Tmax=3.0), hetero=funs if funs or "none" in case["hmap"] else None)
    nv = L.nvar_of(kind, P["d"])
    pts = L.points(3, nv)
    params = P["params"]
    v = []
    got = []
    snap0 = snapshot(params)
    for rep in range(2):  # evaluated twice: the caller's parameters must not be touched by the replacement
      got = []
      for z in pts:
        zz = jnp.asarray(z)
        if kind == "ode":
            got.append(float(P["dyn"].evaluate(zz[0], P["u"], params)[0]))
        elif kind == "statio":
            got.append(float(P["dyn"].evaluate(zz, P["u"], params)[0]))
        else:
            got.append(float(P["dyn"].evaluate(zz[:1], zz[1:], P["u"], params)[0]))
    if snapshot(params) != snap0:
        v.append(V(site, "callers_parameters_modified_by_heterogeneous_evaluation", f"map {dict(zip(KEYS3, case['hmap']))}"))
    U = L.jets(P["coef"], P["expo"], pts, [()])[()][0]
    vals = {}
    for k, mode in zip(KEYS3, case["hmap"]):
        j = KEYS3.index(k)
        if mode == "fun":
            rawv = float(CALLER[{"a": "c", "b": "a", "c": "b"}[k]].reshape(-1)[0])
            vals[k] = np.stack([np.full(CALLER[k].size, (0.2 + 0.1 * j) + (1.0 + j) * z[0] + 0.1 * rawv) for z in pts])
        else:
            vals[k] = np.broadcast_to(CALLER[k].reshape(1, -1), (len(pts), CALLER[k].size))
    exp = res_formula(True, U, pts[:, 0], vals["a"][:, 0], vals["b"][:, 0], vals["c"])
    if np.max(np.abs(np.array(got) - exp)) > 1e-10 * (1 + np.max(np.abs(exp))):
        v.append(V(site, "heterogeneous_parameters_not_applied_as_declared", f"map {dict(zip(KEYS3, case['hmap']))}: got {got} expected {exp.tolist()}"))
    # the other terms of a loss must see the caller's values (heterogeneity lives inside the equation only)
    if kind == "ode" and not v:
        P2 = build(dict(kind="ode", site="both", b=2), hetero=funs if funs or "none" in case["hmap"] else None)
        P0 = build(dict(kind="ode", site="both", b=2), hetero=None)
        batch = L.make_batch("ode", L.points(2, 1), obs=P2["obs"])
        t2 = P2["loss"].evaluate(P2["params"], batch)[1]
        t0 = P0["loss"].evaluate(P0["params"], batch)[1]
        for k in ("initial_condition", "observations"):
            if float(t2[k]) != float(t0[k]):
                v.append(V(site, "heterogeneity_leaks_outside_the_equation", f"{k}: {float(t2[k])} vs {float(t0[k])}"))
    nontriv = "fun" in case["hmap"]
    return dict(viol=v, evals=len(pts), nontrivial=[str(case)] if nontriv else [], outcomes=[f"{kind}|{case['hmap']}|{round(float(np.sum(exp)), 6)}"],
                sample={"case": case, "expected": exp.tolist()})


def run_case(case):
    return run_batch(case) if case["type"] == "batch" else run_hetero(case)
