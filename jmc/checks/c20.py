"""C20 — loss evaluation and batch drawing are pure and compilation-invariant.

Machine: state = deep snapshot of *all* arguments of two argument sets A and A' (same
structure, different values); ops = {E eager evaluate, J evaluate under jit (loss as pytree
argument and eqx.filter_jit of the bound method), G value_and_grad, D eager draw, K jitted
draw} x {A, A'}.  Every op sequence up to the depth bound is run from freshly built objects
(jit caches deliberately persist across sequences); after every op all snapshots must be
unchanged and the result must equal the first result of the same kind on the same set."""
from __future__ import annotations

import itertools

import numpy as np
import jax
import jax.numpy as jnp
import equinox as eqx
import jinns

from jmc.core import losslib as L
from jmc.core import trainlib as tl
from jmc.core.refmodels import V
from jmc.checks import c12

ID = "C20"
LEVEL = "model_checking"
X64 = True
RULE = (
    "complete enumeration of loss kind {ODE, stationary, non-stationary, SystemLossODE, SystemLossPDE} x batch form {plain, +parameter "
    "batch, +observations, both}; per configuration every sequence over the 10-letter alphabet {E,J,G,D,K} x {A,A'} up to the depth "
    "bound, each from freshly built objects.  A state is the tuple of deep snapshots; non-trivial = a sequence that touches both "
    "argument sets or repeats an op kind; distinct by (configuration, sequence)."
)
ASSUMPTIONS = [
    "'under jit' = the loss / generator is a pytree argument of the jitted function (how solve runs them) and eqx.filter_jit of the bound method; jax.jit(loss.evaluate) on the bound method is not a supported call",
    "snapshots = bytes of every array leaf + the pytree structure (static fields) of params, batches, generators and the loss; hidden state is provoked through sequences, not snapshotted",
    "x64; repeats exact, eager / jit / value_and_grad primal within 1e-12 relative; draws bit-exact (the five jit-first cases run in 32-bit mode: 2e-4 on expected values, 1e-5 across modes)",
]
BOUNDS = {"quick": {"depth": 2}, "thorough": {"depth": 3}}
KINDS = ["ode", "statio", "nonstatio", "sys_ode", "sys_pde"]
FORMS = ["plain", "param", "obs", "both"]
LETTERS = [o + x for o in "EJGDK" for x in ("a", "b")]


def cases(tier, seed):
    out = []
    for kind in KINDS:
        for form in FORMS:
            depth = BOUNDS[tier]["depth"]
            seqs = [list(s) for dd in range(1, depth + 1) for s in itertools.product(LETTERS, repeat=dd)]
            if depth >= 3:
                # depth 3 on the evaluation letters only for the system losses with aux batches keeps thorough affordable: no, keep all
                pass
            chunk = 25
            for i in range(0, len(seqs), chunk):
                out.append(dict(kind=kind, form=form, seqs=seqs[i:i + chunk], key=seed + 21))
    # the first evaluation ever made with a given batch size happens under jit (a batch size used by no other case of the
    # process), then eagerly, under value-and-grad and under jit with the other argument set: a value memoised while tracing
    # would leak into the later calls
    for kind in ("ode", "statio", "nonstatio"):
        for zero in (0, 0.0):
            out.append(dict(type="nanzero", kind=kind, zero=zero, form="plain", seqs=[], key=seed + 21))
    for ki, kind in enumerate(KINDS):
        # (run in the default 32-bit mode: the runner gives these cases their own freshly started worker processes)
        out.append(dict(kind=kind, form="both", seqs=[["Ja", "Ea", "Ga", "Jb", "Eb"]], key=seed + 21, b=3 + ki, x64=False))
    return out


def static_fp(o, depth=0):
    """content of the non-array (static) part of an object graph: field names, dictionary keys in insertion order, Python
    scalars, names of callables -- a dictionary that gains a key, or a static field that is rebound, changes it"""
    import dataclasses
    if depth > 12:
        return "..."
    if isinstance(o, (jax.Array, np.ndarray)):
        return "array"
    if isinstance(o, eqx.Module) or dataclasses.is_dataclass(o) and not isinstance(o, type):
        return (type(o).__name__,) + tuple((f.name, static_fp(getattr(o, f.name, None), depth + 1)) for f in dataclasses.fields(o))
    if isinstance(o, dict):
        return ("dict",) + tuple((str(k), static_fp(v_, depth + 1)) for k, v_ in o.items())
    if isinstance(o, (list, tuple)):
        return (type(o).__name__,) + tuple(static_fp(v_, depth + 1) for v_ in o)
    if o is None or isinstance(o, (bool, int, float, str, slice)):
        return repr(o)
    if callable(o):
        return "callable:" + getattr(o, "__qualname__", type(o).__name__)
    return type(o).__name__


def snap(tree):
    leaves, treedef = jax.tree_util.tree_flatten(tree)
    return (str(treedef), tuple((np.asarray(x).shape, str(np.asarray(x).dtype), np.asarray(x).tobytes()) for x in leaves), static_fp(tree))


def build_sets(case):
    """fresh objects: one loss, two argument sets"""
    kind, form = case["kind"], case["form"]
    bk = c12.base_kind(kind)
    b = case.get("b", 2)
    OB = np.concatenate([c12.OBS_B, 0.7 * c12.OBS_B + 0.1])
    # the equation declares only one of its three parameters in its heterogeneity map (as "not heterogeneous"): the
    # documentation allows missing keys
    P = c12.build(dict(kind=kind, site="both", b=b), hetero={"c": None})
    nv = L.nvar_of(bk, P["d"])
    sets = {}
    for tag, salt, scale in (("a", 0, 1.0), ("b", 3, 1.15)):
        params = jax.tree_util.tree_map(lambda x: x * scale + (0.03 if scale != 1.0 else 0.0), P["params"])
        pts = L.points(b, nv, salt=salt)
        pb = {"a": jnp.asarray(c12.rows_of("a", b) * scale)} if form in ("param", "both") else None
        obs = None
        if form in ("obs", "both"):
            vals_o = np.linspace(0.2, 0.6, b)[:, None] * scale
            # argument set A' gives the observed values of its single-output network as a flat (rows,) array
            o = {"pinn_in": jnp.asarray(L.points(b, nv, salt=8 + salt)), "val": jnp.asarray(vals_o[:, 0] if tag == "b" else vals_o),
                 "eq_params": {"b": jnp.asarray(OB[:b] * scale)}}
            obs = {"u": o} if kind.startswith("sys") else o
        batch = L.make_batch(bk, pts, param=pb, obs=obs)
        key = jax.random.PRNGKey(case["key"] + salt)
        k1, k2, k3 = jax.random.split(key, 3)
        if bk == "ode":
            # set A: fresh generator, 5 points; set A': 4 points (batch size divides it), already drawn from up to the end
            # of its first epoch, so that the next draw is a reshuffle
            gen = jinns.data.DataGeneratorODE(k1, (2 * b + 1 if tag == "a" else 2 * b), 0.0, 1.0, b)
            if tag == "b":
                for _ in range(2):
                    gen, _unused = jit_of("advance", lambda g: g.get_batch())(gen)
            rows = b
        elif bk == "statio":
            gen = jinns.data.CubicMeshPDEStatio(key=k1, n=2 * b + 1, nb=8, omega_batch_size=b, omega_border_batch_size=1, dim=2, min_pts=(-1.0, 0.0), max_pts=(2.0, 1.0))
            rows = b
        else:
            # temporal batch much larger than the spatial one (related sizes differ)
            gen = jinns.data.CubicMeshPDENonStatio(key=k1, n=2 * b + 1, nb=8, nt=2 * (b + 3) - 1, omega_batch_size=b, omega_border_batch_size=1, temporal_batch_size=b + 3, dim=2,
                                                   min_pts=(-1.0, 0.0), max_pts=(2.0, 1.0), tmin=0.0, tmax=1.0)
            rows = (b + 3) * b
        pgen = jinns.data.DataGeneratorParameter(k2, 2 * rows + 1, rows, {"a": (0.5, 1.5)}) if form in ("param", "both") else None
        r = np.arange(2 * rows + 1, dtype=float)
        ogen = None
        if form in ("obs", "both"):
            if kind.startswith("sys"):
                # the multi-network loader (one aligned loader per unknown) is what system losses are trained with
                ogen = jinns.data.DataGeneratorObservationsMultiPINNs(rows, {"u": jnp.asarray(r[:, None] / 7)}, {"u": jnp.asarray(np.cos(r)[:, None])}, key=k3)
            else:
                ogen = jinns.data.DataGeneratorObservations(k3, rows, jnp.asarray(r[:, None] / 7), jnp.asarray(np.cos(r)[:, None]))
        # independent expectation of the returned terms (per-sample NumPy formula of C12) for this argument set
        P2 = dict(P, coef=P["coef"] * scale + (0.03 if scale != 1.0 else 0.0))
        off = 0.03 if scale != 1.0 else 0.0
        vals = {k: np.broadcast_to((c12.CALLER[k] * scale + off).reshape(1, -1), (b, c12.CALLER[k].size)) for k in c12.KEYS3}
        if pb is not None:
            vals["a"] = c12.rows_of("a", b) * scale
        exp = c12.oracle_terms(P2, pts, o if form in ("obs", "both") else {"pinn_in": np.zeros((0, nv)), "val": np.zeros((0, 1))}, vals,
                               {"b": OB[:b] * scale} if form in ("obs", "both") else None)
        if form not in ("obs", "both"):
            exp["observations"] = 0.0
        sets[tag] = dict(params=params, batch=batch, gen=gen, pgen=pgen, ogen=ogen, expected=exp)
    return P["loss"], sets


_JIT = {}


def jit_of(name, fn):
    if name not in _JIT:
        _JIT[name] = eqx.filter_jit(fn)
    return _JIT[name]


def _draw(g, p, o):
    return tl.draw(g, p, o)


def do_op(op, loss, S):
    """returns (class, payload) where payload is compared with earlier results of the same class on the same set"""
    if op == "E":
        tot, terms = loss.evaluate(S["params"], S["batch"])
        return "eval", (float(tot), {k: float(v) for k, v in terms.items()}, None)
    if op == "J":
        tot, terms = jit_of("eval", lambda l, p, b: l.evaluate(p, b))(loss, S["params"], S["batch"])
        tot2, terms2 = eqx.filter_jit(loss.evaluate)(S["params"], S["batch"])
        if float(tot) != float(tot2) or any(float(terms[k]) != float(terms2[k]) for k in terms):
            return "eval", ("jit-forms-disagree", float(tot), float(tot2))
        return "eval", (float(tot), {k: float(v) for k, v in terms.items()}, None)
    if op == "G":
        (tot, terms), g = jax.value_and_grad(lambda p: loss.evaluate(p, S["batch"]), has_aux=True)(S["params"])
        gsum = float(sum(jnp.sum(jnp.abs(x)) for x in jax.tree_util.tree_leaves(g)))
        return "eval", (float(tot), {k: float(v) for k, v in terms.items()}, gsum)
    if op == "D":
        batch, g2, p2, o2 = _draw(S["gen"], S["pgen"], S["ogen"])
        return "draw", snap((batch, g2, p2, o2))
    if op == "K":
        batch, g2, p2, o2 = jit_of("draw", _draw)(S["gen"], S["pgen"], S["ogen"])
        return "draw", snap((batch, g2, p2, o2))
    raise ValueError(op)


def run_seq(case, seq):
    loss, sets = build_sets(case)
    site = f"purity/{case['kind']}/{case['form']}"
    base = {"loss": snap(loss), **{f"{t}.{k}": snap(S[k]) for t, S in sets.items() for k in ("params", "batch", "gen", "pgen", "ogen")}}
    first, firstgrad = {}, {}
    v = []
    for i, letter in enumerate(seq):
        op, t = letter[0], letter[1]
        cls, payload = do_op(op, loss, sets[t])
        now = {"loss": snap(loss), **{f"{tt}.{k}": snap(S[k]) for tt, S in sets.items() for k in ("params", "batch", "gen", "pgen", "ogen")}}
        changed = [k for k in base if now[k] != base[k]]
        if changed:
            v.append(V(site, "argument_modified_by_" + {"E": "eager_evaluate", "J": "jit_evaluate", "G": "value_and_grad", "D": "eager_draw", "K": "jit_draw"}[op],
                       f"sequence {''.join(seq)} step {i} ({letter}): changed {changed}"))
            break
        if cls == "eval" and payload[0] == "jit-forms-disagree":
            v.append(V(site, "jit_with_loss_as_argument_differs_from_filter_jit_of_method", f"{payload}"))
            break
        key = (cls, t)
        if cls == "eval":
            exp = sets[t]["expected"]
            bad = [k for k in exp if not abs(payload[1].get(k, float("nan")) - exp[k]) <= (1e-9 if case.get("x64", True) else 2e-4) * (1 + abs(exp[k]))]
            if bad:
                v.append(V(site, "evaluation_result_differs_from_the_value_for_these_arguments",
                           f"sequence {''.join(seq)} step {i} ({letter}): {bad[0]} = {payload[1].get(bad[0])} expected {exp[bad[0]]} (stale or foreign state?)"))
                break
        if key not in first:
            first[key] = (op, payload)
        else:
            op0, p0 = first[key]
            if cls == "draw":
                if payload != p0:
                    v.append(V(site, f"draw_result_differs({op0}_then_{op})", f"sequence {''.join(seq)} step {i}"))
                    break
            else:
                exact = op0 == op
                tol = 0.0 if exact else (1e-12 if case.get("x64", True) else 1e-5)
                vals = [(payload[0], p0[0])] + [(payload[1][k], p0[1][k]) for k in payload[1]]
                if any(abs(a - b) > tol * (1 + abs(b)) for a, b in vals):
                    v.append(V(site, f"evaluation_result_differs({op0}_then_{op})", f"sequence {''.join(seq)} step {i}: {payload[0]} vs {p0[0]}"))
                    break
        if op == "G":
            if t in firstgrad and firstgrad[t] != payload[2]:
                v.append(V(site, "gradient_differs_on_repetition", f"sequence {''.join(seq)}"))
                break
            firstgrad.setdefault(t, payload[2])
    return v, "|".join(f"{k[0]}{k[1]}:{(p[1][0] if k[0] == 'eval' else hash(p[1]) % 997)}" for k, p in sorted(first.items()))


def run_nanzero(case):
    """a term switched off by a weight that is exactly 0 while its data contain a non-finite value: eager, value-and-grad,
    filter_jit and jax.jit (loss as an argument: the weight is traced) must return the same thing, NaN for NaN"""
    kind = case["kind"]
    d = 0 if kind == "ode" else 1
    nv = L.nvar_of(kind, d)
    site = f"purity/{kind}/zero_weight_non_finite_data"
    u, coef, expo = L.make_u(kind, d, 1, deg=2, salt=6)
    params = jinns.parameters.Params(nn_params=u.init_params(), eq_params={"b": jnp.asarray(-0.4), "a": jnp.asarray(0.7)})
    zero = case["zero"]
    W = {"ode": jinns.loss.LossWeightsODE, "statio": jinns.loss.LossWeightsPDEStatio, "nonstatio": jinns.loss.LossWeightsPDENonStatio}[kind]
    LS = {"ode": jinns.loss.LossODE, "statio": jinns.loss.LossPDEStatio, "nonstatio": jinns.loss.LossPDENonStatio}[kind]
    kw = dict(initial_condition=(0.3, jnp.asarray([0.2]))) if kind == "ode" else {}
    loss = L.quiet(LS, u=u, dynamic_loss=L.user_eq(kind, 1), loss_weights=W(dyn_loss=1.0, observations=zero), params=params, **kw)
    val = np.array([[np.nan], [0.3], [-0.2]])
    obs = {"pinn_in": jnp.asarray(L.points(3, nv, salt=8)), "val": jnp.asarray(val), "eq_params": {}}
    batch = L.make_batch(kind, L.points(3, nv), obs=obs)
    res = {}
    res["eager"] = loss.evaluate(params, batch)
    res["value_and_grad"] = jax.value_and_grad(lambda p: loss.evaluate(p, batch), has_aux=True)(params)[0]
    res["filter_jit"] = eqx.filter_jit(lambda l, p, b: l.evaluate(p, b))(loss, params, batch)
    res["jax.jit"] = jax.jit(lambda l, p, b: l.evaluate(p, b))(loss, params, batch)
    flat = {m: {"total": float(r[0]), **{k: float(x) for k, x in r[1].items()}} for m, r in res.items()}
    v = []
    ref = flat["eager"]
    for m, f in flat.items():
        for k in ref:
            a, b_ = f[k], ref[k]
            same = (np.isnan(a) and np.isnan(b_)) or (not np.isnan(a) and not np.isnan(b_) and abs(a - b_) <= 1e-12 * (1 + abs(b_)))
            if not same:
                v.append(V(site, "result_depends_on_the_execution_mode", f"weight {zero!r}: {k}: eager {b_} vs {m} {a}"))
    return dict(viol=v, evals=4, states=1, transitions=4, traces=1, nontrivial=[f"nanzero|{kind}|{zero!r}"],
                outcomes=[f"nanzero|{kind}|{flat['eager']['total']}"], sample={"case": case, "eager": {k: str(x) for k, x in ref.items()}})


def run_case(case):
    if case.get("type") == "nanzero":
        return run_nanzero(case)
    viol, outcomes, nontriv = [], set(), []
    ntrans = 0
    for seq in case["seqs"]:
        v, out = run_seq(case, seq)
        ntrans += len(seq)
        outcomes.add(out[:80])
        if len(seq) >= 2:
            nontriv.append(f"{case['kind']}|{case['form']}|{''.join(seq)}")
        if v:
            viol += v
            break
    return dict(viol=viol, evals=len(case["seqs"]), states=len(case["seqs"]) + 1, transitions=ntrans, traces=len(case["seqs"]), nontrivial=nontriv,
                outcomes=sorted(outcomes)[:50], sample={"kind": case["kind"], "form": case["form"], "sequences": ["".join(s) for s in case["seqs"][:5]]})
