"""C13 — a system loss is the weighted composition of its equations and unknowns.

Bounded-exhaustive over system shapes: kind x #equations x #unknowns x key naming x weight
forms x per-unknown specifications.  Oracle: sum_eq w_eq * batch-mean squared residual
(recording equations whose value reveals the argument order) + sum_unknown w_u * term of
the corresponding *single* loss on the same data; 1 equation x 1 unknown == plain loss."""
from __future__ import annotations

import itertools

import numpy as np
import jax
import jax.numpy as jnp
import equinox as eqx
import jinns

from jmc.core import losslib as L
from jmc.core.refmodels import V

ID = "C13"
LEVEL = "exploration"
X64 = True
RULE = (
    "complete enumeration of kind {ODE, stationary 2-D, non-stationary 2-D} x #equations {1,2,3} x #unknowns {1,2} x equation keys "
    "{same as unknowns, different} x dynamic weight {scalar, per-key dict} x constraint weights {scalar, per-key dict, missing} x "
    "per-unknown specification pattern {all, alternating, none}.  Non-trivial = at least two non-zero terms; distinct by configuration."
)
ASSUMPTIONS = [
    "single-loss terms used in the oracle are those of LossODE / LossPDEStatio / LossPDENonStatio (decided by C03-C05)",
    "equations are affine recording maps of (t, x, every unknown): a swapped argument order or a missing unknown changes the value",
    "x64; 1e-10 relative",
]
BOUNDS = {"quick": {"neq": [1, 2, 3]}, "thorough": {"neq": [1, 2, 3, 4]}}
KEYS = {"ode": ["dyn_loss", "initial_condition", "observations"],
        "statio": ["dyn_loss", "norm_loss", "boundary_loss", "observations", "initial_condition"],
        "nonstatio": ["dyn_loss", "norm_loss", "boundary_loss", "observations", "initial_condition"]}


def cases(tier, seed):
    out = []
    for kind in ("ode", "statio", "nonstatio"):
        for neq in BOUNDS[tier]["neq"]:
            for nunk in (1, 2):
                for samekeys in ((True, False) if neq == nunk else (False,)):
                    for wdyn in ("scalar", "dict"):
                        for wcon in ("scalar", "dict", "none"):
                            for spec in ("all", "alt", "none"):
                                # weight values as Python floats or as 0-d arrays (both documented as valid)
                                wform = "array" if (neq + nunk + len(spec) + len(wcon)) % 2 else "float"
                                out.append(dict(kind=kind, neq=neq, nunk=nunk, samekeys=samekeys, wdyn=wdyn, wcon=wcon, spec=spec, wform=wform))
                    # the first equation declares its parameter heterogeneous (a function of the point)
                    for wdyn in ("scalar", "dict"):
                        out.append(dict(kind=kind, neq=neq, nunk=nunk, samekeys=False, wdyn=wdyn, wcon="none", spec="none", wform="float", hetero=True))
    out.sort(key=lambda c: (c["neq"] + c["nunk"], c["wdyn"] != "scalar", c["wcon"] != "scalar"))
    return out


def coeffs(e, j):
    return 0.5 + 0.3 * e - 0.2 * j + 0.1 * e * j


def second(idx, r):
    """equations with an odd index return a two-component residual"""
    if idx % 2 == 1:
        return jnp.stack([jnp.reshape(r, ()), 0.4 * jnp.reshape(r, ()) + 0.2])
    return jnp.reshape(r, (1,))


class RecODE(jinns.loss.ODE):
    idx: int = eqx.field(static=True, default=0, kw_only=True)
    names: tuple = eqx.field(static=True, default=(), kw_only=True)

    def equation(self, t, u_dict, params_dict):
        r = 1.7 * jnp.reshape(t, ()) + params_dict.eq_params["a"]
        for j, n in enumerate(self.names):
            r = r + coeffs(self.idx, j) * u_dict[n](t, params_dict.extract_params(n))[0]
        return second(self.idx, r)


class RecStatio(jinns.loss.PDEStatio):
    idx: int = eqx.field(static=True, default=0, kw_only=True)
    names: tuple = eqx.field(static=True, default=(), kw_only=True)

    def equation(self, x, u_dict, params_dict):
        r = 0.3 * x[0] + 0.9 * x[1] + params_dict.eq_params["a"]
        for j, n in enumerate(self.names):
            r = r + coeffs(self.idx, j) * u_dict[n](x, params_dict.extract_params(n))[0]
        return second(self.idx, r)


class RecNonStatio(jinns.loss.PDENonStatio):
    idx: int = eqx.field(static=True, default=0, kw_only=True)
    names: tuple = eqx.field(static=True, default=(), kw_only=True)

    def equation(self, t, x, u_dict, params_dict):
        if t.shape != (1,) or x.shape != (2,):
            # documented order is (t, x, u, params): make a swap visible whatever the shapes
            return jnp.full((1,), 1e6) + jnp.sum(t) * 0
        r = 1.7 * t[0] + 0.3 * x[0] + 0.9 * x[1] + params_dict.eq_params["a"]
        for j, n in enumerate(self.names):
            r = r + coeffs(self.idx, j) * u_dict[n](t, x, params_dict.extract_params(n))[0]
        return second(self.idx, r)


REC = {"ode": RecODE, "statio": RecStatio, "nonstatio": RecNonStatio}


def close(a, b):
    return abs(a - b) <= 1e-10 * (1 + abs(b))


def run_case(case):
    kind, neq, nunk = case["kind"], case["neq"], case["nunk"]
    d = 0 if kind == "ode" else 2
    nv = L.nvar_of(kind, d)
    # dictionaries are matched by key, never by position: unknowns and equations are inserted in non-alphabetical
    # order, and parallel dictionaries (weights, conditions, observations) in yet another order
    names = ["w", "u"][:nunk]
    eqkeys = list(names) if case["samekeys"] else [f"eq{i}" for i in range(neq)][::-1]

    def reorder(d):
        return dict(sorted(d.items())) if isinstance(d, dict) else d
    site = f"SystemLoss{'ODE' if kind == 'ode' else 'PDE'}/{kind}"
    # the first unknown of a PDE system has two outputs, of which the boundary condition constrains component 1 only
    nout = {n: (2 if (kind != "ode" and i == 0) else 1) for i, n in enumerate(names)}
    nets_ = {n: L.make_u(kind, d, nout[n], deg=2, salt=3 + i) for i, n in enumerate(names)}
    u_dict = {n: nets_[n][0] for n in names}
    pd = jinns.parameters.ParamsDict(nn_params={n: u_dict[n].init_params() for n in names}, eq_params={"a": jnp.asarray(0.7)})
    het = None
    if case.get("hetero"):
        het = {"ode": (lambda t, u, p: p.eq_params["a"] + 0.5 * jnp.reshape(t, ())),
               "statio": (lambda x, u, p: p.eq_params["a"] + 0.5 * x[0]),
               "nonstatio": (lambda t, x, u, p: p.eq_params["a"] + 0.5 * t[0] - 0.25 * x[1])}[kind]
    dyn = {k: REC[kind](idx=i, names=tuple(names), eq_params_heterogeneity={"a": het} if (het is not None and i == 0) else None) for i, k in enumerate(eqkeys)}
    b = 3
    pts = L.points(b, nv)
    # per-unknown specifications
    def has(n, what):
        if case["spec"] == "all":
            return True
        if case["spec"] == "none":
            return False
        i = names.index(n)
        return (what == "ic") if i == 0 else (what in ("bc", "obs"))
    nout_pre = {n: (2 if (kind != "ode" and i == 0) else 1) for i, n in enumerate(names)}
    obs = {n: ({"pinn_in": jnp.asarray(L.points(2, nv, salt=7 + i)), "val": jnp.asarray(np.array([[0.2], [-0.1]]) * (i + 1) * np.ones((1, nout_pre[n]))), "eq_params": {}} if has(n, "obs") else None)
           for i, n in enumerate(names)}
    any_obs = any(o is not None for o in obs.values())
    border = None
    if kind != "ode":
        border = np.stack([L.points(2, nv, salt=f) for f in range(4)], axis=-1)
    batch = L.make_batch(kind, pts, border=border, obs=obs if any_obs else None)
    # weights
    # per-key dictionaries may switch one entry off with an exact 0
    wd = 1.3 if case["wdyn"] == "scalar" else reorder({k: (0.0 if (i == len(eqkeys) - 1 and len(eqkeys) >= 2) else 0.5 + 0.4 * i) for i, k in enumerate(eqkeys)})
    def wc(term, j0):
        if case["wcon"] == "scalar":
            return 0.6 + 0.1 * j0
        if case["wcon"] == "dict":
            return reorder({n: (0 if (i == 1 and term == "obs") else 0.3 + 0.25 * i + 0.1 * j0) for i, n in enumerate(names)})
        return None
    def form(w):
        if case.get("wform") != "array" or w is None:
            return w
        return {k: jnp.asarray(x) for k, x in w.items()} if isinstance(w, dict) else jnp.asarray(w)
    shared_obj = None
    if case["samekeys"] and case["wdyn"] == "dict" and case["wcon"] == "dict":
        # the user passes one and the same dictionary object for the equation weights and for a constraint weight
        shared_obj = form(wd)
    w_ic, w_obs, w_bc = form(wc("ic", 0)), form(wc("obs", 1)), form(wc("bc", 2))
    w_dyn = shared_obj if shared_obj is not None else form(wd)
    if shared_obj is not None:
        w_ic = shared_obj
    user_dicts = [d_ for d_ in (w_dyn, w_ic, w_obs, w_bc) if isinstance(d_, dict)]
    before = [{k: float(x) for k, x in d_.items()} for d_ in user_dicts]
    if kind == "ode":
        lw = jinns.loss.LossWeightsODEDict(dyn_loss=w_dyn, initial_condition=w_ic, observations=w_obs)
        ic = reorder({n: ((0.3, jnp.asarray([0.2 * (i + 1)])) if has(n, "ic") else None) for i, n in enumerate(names)})
        loss = L.quiet(jinns.loss.SystemLossODE, u_dict=u_dict, dynamic_loss_dict=dyn, initial_condition_dict=ic, loss_weights=lw, params_dict=pd)
    else:
        lw = jinns.loss.LossWeightsPDEDict(dyn_loss=w_dyn, norm_loss=None, boundary_loss=w_bc, observations=w_obs, initial_condition=w_ic)
        bf = (lambda dx: 0.25) if kind == "statio" else (lambda t, dx: 0.25)
        kw = dict(omega_boundary_fun_dict={n: (bf if has(n, "bc") else None) for n in names},
                  omega_boundary_condition_dict={n: ("dirichlet" if has(n, "bc") else None) for n in names},
                  omega_boundary_dim_dict={n: (1 if nout[n] == 2 else None) for n in names})
        if kind == "nonstatio":
            kw["initial_condition_fun_dict"] = {n: ((lambda x, i=i, k=nout[n]: jnp.sin(x[0]) * (i + 1) * jnp.ones((k,))) if has(n, "ic") else None) for i, n in enumerate(names)}
        loss = L.quiet(jinns.loss.SystemLossPDE, u_dict=u_dict, dynamic_loss_dict=dyn, loss_weights=lw, params_dict=pd, **kw)
    total, terms = L.jit_eval(loss, pd, batch)
    total, terms = float(total), {k: float(x) for k, x in terms.items()}
    v = []
    after = [{k: float(x) for k, x in d_.items()} for d_ in user_dicts]
    if after != before:
        v.append(V(site, "constructor_modified_the_users_weight_dictionary", f"{before} -> {after}"))
    # eager evaluation (Python-level dict iteration order is only visible here: jit re-sorts pytree dictionaries)
    etotal, eterms = loss.evaluate(pd, batch)
    eterms = {k: float(x) for k, x in eterms.items()}
    # ---- oracle: dynamic part
    U = {n: L.jets(nets_[n][1], nets_[n][2], pts, [()])[()][0] for n in names}
    exp_dyn = 0.0
    for i, k in enumerate(eqkeys):
        r = 0.7 + sum(coeffs(i, j) * U[n] for j, n in enumerate(names))
        if kind == "ode":
            r = r + 1.7 * pts[:, 0]
        elif kind == "statio":
            r = r + 0.3 * pts[:, 0] + 0.9 * pts[:, 1]
        else:
            r = r + 1.7 * pts[:, 0] + 0.3 * pts[:, 1] + 0.9 * pts[:, 2]
        if case.get("hetero") and i == 0:
            r = r + {"ode": 0.5 * pts[:, 0], "statio": 0.5 * pts[:, 0], "nonstatio": 0.5 * pts[:, 0] - 0.25 * pts[:, -1]}[kind]
        w = wd if not isinstance(wd, dict) else wd[k]
        comps = [r] + ([0.4 * r + 0.2] if i % 2 == 1 else [])
        exp_dyn += w * float(np.mean(sum(c_**2 for c_ in comps)))
    # ---- oracle: constraints from single losses
    exp = {k: 0.0 for k in KEYS[kind]}
    exp["dyn_loss"] = exp_dyn
    for i, n in enumerate(names):
        p1 = pd.extract_params(n)
        ob = obs[n]
        if kind == "ode":
            single = L.quiet(jinns.loss.LossODE, u=u_dict[n], dynamic_loss=None, initial_condition=ic[n], params=p1)
        elif kind == "statio":
            single = L.quiet(jinns.loss.LossPDEStatio, u=u_dict[n], dynamic_loss=None, omega_boundary_fun=kw["omega_boundary_fun_dict"][n],
                             omega_boundary_condition=kw["omega_boundary_condition_dict"][n], omega_boundary_dim=kw["omega_boundary_dim_dict"][n], params=p1)
        else:
            single = L.quiet(jinns.loss.LossPDENonStatio, u=u_dict[n], dynamic_loss=None, omega_boundary_fun=kw["omega_boundary_fun_dict"][n],
                             omega_boundary_condition=kw["omega_boundary_condition_dict"][n], omega_boundary_dim=kw["omega_boundary_dim_dict"][n],
                             initial_condition_fun=kw["initial_condition_fun_dict"][n], params=p1)
        sb = L.make_batch(kind, pts, border=border, obs=ob)
        st = {k: float(x) for k, x in L.jit_eval(single, p1, sb)[1].items()}
        for term, j0, nm in (("initial_condition", 0, "ic"), ("observations", 1, "obs"), ("boundary_loss", 2, "bc")):
            if term not in exp:
                continue
            w = wc(nm, j0)
            if nm == "ic" and shared_obj is not None:
                w = {k_: before[0][k_] for k_ in before[0]}
            w = 0.0 if w is None else (w[n] if isinstance(w, dict) else w)
            exp[term] += w * st.get(term, 0.0)
    cfg = {k: v_ for k, v_ in case.items()}
    for k in exp:
        if k not in terms:
            v.append(V(site, "term_missing", f"{k}"))
        elif not close(terms[k], exp[k]):
            kindv = "dynamic_term_is_not_the_weighted_sum_over_equations" if k == "dyn_loss" else "constraint_term_is_not_the_weighted_sum_of_single_loss_terms"
            v.append(V(site, kindv, f"{cfg}: {k} = {terms[k]} expected {exp[k]}"))
    for k in exp:
        if k in eterms and not close(eterms[k], exp[k]):
            v.append(V(site, "eager_evaluation_differs_from_the_composition", f"{cfg}: {k} = {eterms[k]} expected {exp[k]} (jit: {terms.get(k)})"))
    if not close(total, sum(exp.values())):
        v.append(V(site, "total_is_not_the_sum_of_terms", f"{cfg}: {total} vs {sum(exp.values())}"))
    nz = sum(1 for x in exp.values() if x != 0)
    return dict(viol=v, evals=1 + nunk, nontrivial=[str(cfg)] if nz >= 2 else [], outcomes=[f"{kind}|{neq}|{nunk}|{round(sum(exp.values()), 6)}"],
                sample={"case": case, "expected_terms": exp})
