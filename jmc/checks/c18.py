"""C18 — on non-finite parameters training stops and returns the last finite ones.

Fault enumeration: every iteration index k at which a NaN is injected (and k = none),
every origin (loss value, gradient of a network leaf, gradient of an equation
parameter, optimizer update), through harness-side seams only (a counting optax
transformation; a clock equation parameter advanced by the optimizer)."""
from __future__ import annotations

import warnings

import numpy as np
import jax
import jax.numpy as jnp
import equinox as eqx
import optax
import jinns

from jmc.core import trainlib as tl
from jmc.core.refmodels import V

ID = "C18"
LEVEL = "fault_enumeration"
X64 = True
RULE = (
    "complete enumeration of fault iteration k in 0..n_iter-1 and 'no fault' x origin {loss value, gradient of a network leaf, "
    "gradient of the first / last network leaf, gradient of an equation parameter (the last leaf of the parameter tree), optimizer update} x optimizer x loss kind x n_iter x tracked spec; each run goes through "
    "the real jinns.solve and is compared with the textbook loop with the stop rule.  Non-trivial = a fault was actually injected "
    "(k < n_iter) and the run stopped early; distinct by (kind, optimizer, origin, k, n_iter, tracked)."
)
ASSUMPTIONS = [
    "faults are NaN values (the property speaks of NaN parameters); +inf is injected only as the precursor of a NaN (origin inf_then_nan): infinite parameters do not stop training and are NaN-free",
    "the reference loop shares the loss and optimizer objects with the run under test",
    "x64; 1e-10 relative tolerance; NaN-aware comparison of histories",
]
BOUNDS = {
    "quick": {"kinds": ["ode"], "opts": ["sgd", "adam"], "n_iters": [1, 3, 5], "tracked": ["none", "eq"]},
    "thorough": {"kinds": ["ode", "statio", "nonstatio"], "opts": ["sgd", "adam", "chain"], "n_iters": [1, 2, 3, 5, 7], "tracked": ["none", "eq", "nn+eq"]},
}
ORIGINS = ["loss", "grad_nn", "grad_nn_last", "grad_eq", "update", "grad_nn_entry", "inf_then_nan"]


def cases(tier, seed):
    B = BOUNDS[tier]
    out = []
    for kind in B["kinds"]:
        for opt in B["opts"]:
            for n_iter in B["n_iters"]:
                for tracked in B["tracked"]:
                    for origin in ORIGINS:
                        for k in list(range(n_iter)) + [None]:
                            if k is None and origin != "loss" and tier == "quick":
                                continue
                            if tier == "quick" and tracked == "eq" and origin in ("grad_eq",) and opt == "adam":
                                continue
                            out.append(dict(kind=kind, opt=opt, n_iter=n_iter, tracked=tracked, origin=origin, k=k, n=5, b=2, key=seed + 3))
                            if kind == "ode" and tracked == "none" and origin in ("grad_nn", "loss") and n_iter >= 3:
                                # the same fault while residual-adaptive refinement is active
                                out.append(dict(kind=kind, opt=opt, n_iter=n_iter, tracked=tracked, origin=origin, k=k, n=5, b=2, key=seed + 3, rar=True))
    out.sort(key=lambda c: (c["k"] is not None, c["n_iter"], -1 if c["k"] is None else c["k"]))
    return out


def nan_at(k, select, single_entry=False, value=jnp.nan):
    def init(params):
        return jnp.zeros([], jnp.int32)

    def update(updates, state, params=None):
        def poison(x):
            if single_entry:  # only the first entry of a multi-entry leaf becomes NaN
                flat = jnp.ravel(x)
                flat = flat.at[0].set(jnp.where(state == k, value, flat[0]))
                return flat.reshape(x.shape)
            return jnp.where(state == k, value, x)

        poisoned = eqx.tree_at(select, updates, replace_fn=poison)
        return poisoned, state + 1

    return optax.GradientTransformation(init, update)


def clock_tick():
    """after the base optimizer: clock += 1 per update, nan_from frozen"""

    def init(params):
        return optax.EmptyState()

    def update(updates, state, params=None):
        u = eqx.tree_at(lambda p: (p.eq_params["clock"], p.eq_params["nan_from"]), updates,
                        (jnp.ones_like(updates.eq_params["clock"]), jnp.zeros_like(updates.eq_params["nan_from"])))
        return u, state

    return optax.GradientTransformation(init, update)


def build(case):
    k = case["k"]
    kk = 10**6 if k is None else k
    # the clock parameters exist only for the 'loss value' origin, so that for the gradient origins the
    # poisoned leaves include the first and the last leaf of the parameter pytree
    pcfg = dict(kind=case["kind"], n=case["n"], b=case["b"], key=case["key"], aux="none", clock=case["origin"] == "loss", nan_from=float(kk),
                rar=case.get("rar", False))
    with warnings.catch_warnings():
        warnings.simplefilter("ignore")
        P = tl.make_problem(pcfg)
    base = tl.make_optimizer(case["opt"])
    if case["origin"] == "loss":
        tx = optax.chain(base, clock_tick())
    elif case["origin"] == "grad_nn":
        tx = optax.chain(nan_at(kk, lambda p: jax.tree_util.tree_leaves(p.nn_params)[0]), base)
    elif case["origin"] == "grad_nn_entry":
        # first leaf = first Linear weight (hidden x in): several entries, one of them poisoned
        tx = optax.chain(nan_at(kk, lambda p: jax.tree_util.tree_leaves(p.nn_params)[0], single_entry=True), base)
    elif case["origin"] == "grad_nn_last":
        tx = optax.chain(nan_at(kk, lambda p: jax.tree_util.tree_leaves(p.nn_params)[-1]), base)
    elif case["origin"] == "grad_eq":
        tx = optax.chain(nan_at(kk, lambda p: p.eq_params["a"]), base)
    elif case["origin"] == "inf_then_nan":
        # a divergence: the last bias overflows to +inf at iteration k (infinite, but not NaN: training goes on and these
        # are the last NaN-free parameters), NaN follows at iteration k + 1
        tx = optax.chain(base, nan_at(kk, lambda p: jax.tree_util.tree_leaves(p.nn_params)[-1], value=jnp.inf),
                         nan_at(kk + 1, lambda p: jax.tree_util.tree_leaves(p.nn_params)[0]))
    else:
        tx = optax.chain(base, nan_at(kk, lambda p: jax.tree_util.tree_leaves(p.nn_params)[1]))
    return P, tx


def run_case(case):
    P, tx = build(case)
    n_iter, k = case["n_iter"], case["k"]
    tracked = tl.tracked_spec(case["tracked"], P["params"])
    site = f"solve/{case['kind']}/{case['origin']}"
    ref = tl.reference_loop(n_iter, P["params"], P["data"], P["loss"], tx, None, tracked)
    with warnings.catch_warnings():
        warnings.simplefilter("ignore")
        out = jinns.solve(n_iter=n_iter, init_params=P["params"], data=P["data"], loss=P["loss"], optimizer=tx, tracked_params=tracked, verbose=False)
    v = []
    # harness self-check: the reference must have stopped exactly at k
    exp_done = n_iter if k is None else k + 1
    if case["origin"] == "inf_then_nan" and k is not None:
        exp_done = min(n_iter, k + 2)
    if ref["n_done"] != exp_done or (k is not None and exp_done < n_iter and ref["stopped"] != "nan") or (
            k is not None and case["origin"] != "inf_then_nan" and ref["stopped"] != "nan"):
        raise RuntimeError(f"fault seam did not fire as scripted: ref stopped at {ref['n_done']} ({ref['stopped']}), expected {exp_done}")
    ret = out[0]
    if tl.has_nan(ret):
        v.append(V(site, "returned_params_contain_nan", f"fault at iteration {k}"))
    else:
        ok, msg = tl.leaves_close(ret, ref["params"])
        if not ok:
            v.append(V(site, "returned_params_are_not_those_held_before_the_failing_update", f"fault at iteration {k} of {n_iter}: {msg}"))
        if k == 0 and case["origin"] != "inf_then_nan":
            same = all(np.array_equal(np.asarray(a), np.asarray(b)) for a, b in zip(jax.tree_util.tree_leaves(ret), jax.tree_util.tree_leaves(P["params"])))
            if not same:
                v.append(V(site, "fault_at_first_iteration_does_not_return_initial_params", ""))
    tot = np.asarray(out[1])
    for name, got, exp in [("total_loss", tot, ref["totals"])] + [(f"term[{t}]", np.asarray(out[2][t]), ref["terms"][t]) for t in sorted(ref["terms"])]:
        okh, msg = tl.leaves_close(got[:exp_done], exp[:exp_done], nan_ok=True)
        if not okh:
            v.append(V(site, f"{name}_history_up_to_failing_iteration_differs", f"fault at {k}: {msg}: got {got.tolist()} expected {exp.tolist()}"))
        if not np.all(got[exp_done:] == 0.0):
            v.append(V(site, f"{name}_history_touched_after_the_stop", f"fault at {k}: {got.tolist()}"))
    if tracked is not None:
        got_l, exp_l = jax.tree_util.tree_leaves(out[6]), jax.tree_util.tree_leaves(ref["tracked"])
        for g, e in zip(got_l, exp_l):
            g, e = np.asarray(g), np.asarray(e)
            okh, msg = tl.leaves_close(g[:exp_done], e[:exp_done], nan_ok=True)
            if not okh:
                v.append(V(site, "tracked_history_up_to_failing_iteration_differs", f"fault at {k}: {msg}"))
            if not np.all(g[exp_done:] == 0.0):
                v.append(V(site, "tracked_history_touched_after_the_stop", f"fault at {k}"))
    if not tl.gen_equal(out[3], ref["data"]):
        v.append(V(site, "generator_not_advanced_exactly_up_to_the_failing_iteration", f"fault at {k}"))
    nontriv = [str({kk: vv for kk, vv in case.items() if kk != "key"})] if (k is not None) else []
    return dict(viol=v, evals=1, nontrivial=nontriv, outcomes=[f"{case['origin']}|{k}|{exp_done}"],
                sample={"case": case, "stopped_after_iteration": exp_done - 1, "returned_equals_initial": k == 0})
