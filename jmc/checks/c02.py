"""C02 — built-in dynamic losses equal the residual of their documented equation.

Bounded-exhaustive: per equation, through the public evaluate(...): candidate networks =
complete monomial basis (+ all pairwise sums where the residual is quadratic in u) x
parameter corner grid x Tmax x key layouts x tensor grid of points; oracle = the documented
formula evaluated with exact polynomial derivatives (poly.py) in NumPy.  Plus one
closed-form exact solution per equation (residual must vanish)."""
from __future__ import annotations

import itertools
from fractions import Fraction

import numpy as np
import jax
import jax.numpy as jnp
import equinox as eqx
import jinns
import jinns.loss as JL

from jmc.core import nets
from jmc.core.poly import Poly
from jmc.core.refmodels import V

ID = "C02"
LEVEL = "exploration"
X64 = True
RULE = (
    "complete enumeration, per built-in equation, of basis fields (monomials of degree <= deg, all pairwise sums for quadratic "
    "residuals; exp(polynomial) fields for the log-form GLV) x corner grid of every equation parameter (2 values per affine "
    "parameter, 3 for sigma) x Tmax {1, 2.5} x network/parameter key layouts x tensor grid of points (Burgers / Fisher-KPP also with a "
    "parameter declared heterogeneous in (t, x)), plus one exact solution "
    "per equation.  Non-trivial = exact residual not identically zero on the grid; distinct by (equation, layout, Tmax, field)."
)
ASSUMPTIONS = [
    "(Q) residuals at most quadratic in the jet of u are fixed by basis fields and pairwise sums; (A) multi-affine dependence on parameters is fixed by the corner grid",
    "GLV: the docstring is not a well-formed log-form equation; the reference is d/dt log u_i - Tmax (r_i + sum_j a_ij u_j - c_i sum_j u_j) with a_i0 the self-interaction followed by keys_other order (the pinned log form)",
    "x64, tolerance 1e-9 relative",
]
BOUNDS = {"quick": {"deg": 2, "grid": 3, "species": 3}, "thorough": {"deg": 3, "grid": 4, "species": 3}}
VALS = [0.35, -0.8, 1.4, 0.9]


def cases(tier, seed):
    B = BOUNDS[tier]
    out = []
    for T in (1.0, 2.5):
        out.append(dict(eq="burgers", Tmax=T, **B))
        for d in (1, 2):
            out.append(dict(eq="fisher", d=d, Tmax=T, **B))
        out.append(dict(eq="ou", Tmax=T, **B))
        # heterogeneous parameters that depend on time: their functions receive the same (rescaled) time as the equation
        out.append(dict(eq="burgers", Tmax=T, hetero=True, **B))
        out.append(dict(eq="fisher", d=1, Tmax=T, hetero=True, **B))
        for ns in range(1, B["species"] + 1):
            for layout in ("flat", "keyed"):
                for perm in itertools.permutations(range(ns - 1)):
                    out.append(dict(eq="glv", ns=ns, layout=layout, perm=list(perm), Tmax=T, **B))
    out.append(dict(eq="mass", **B))
    for layout in ("separate", "shared"):
        out.append(dict(eq="ns", layout=layout, **B))
    out.append(dict(eq="exact", **B))
    return out


def grid_points(nvar, k, positive_first=False):
    axes = [[VALS[j] + 0.07 * v for j in range(k)] for v in range(nvar)]
    if positive_first:
        axes[0] = [abs(a) for a in axes[0]]
    return np.array(list(itertools.product(*axes)), dtype=np.float64)


def basis_fields(M, n_out, pairs):
    """coefficient matrices: one-hot basis and (optionally) all pairwise sums"""
    basis = [(c, m) for c in range(n_out) for m in range(M)]
    combos = [(b,) for b in basis] + (list(itertools.combinations(basis, 2)) if pairs else [])
    mats = []
    for combo in combos:
        a = np.zeros((n_out, M))
        for (c, m) in combo:
            a[c, m] += 1.0
        mats.append(a)
    return combos, np.stack(mats)


def jets(coef, expo, nvar, pts, orders):
    """exact derivative arrays of each component: dict name -> (n_out, P); orders: list of tuples of variable indices"""
    out = {}
    for c in range(coef.shape[0]):
        p = Poly(nvar, {expo[m]: Fraction(coef[c, m]).limit_denominator(10**6) for m in range(len(expo)) if coef[c, m]})
        for o in orders:
            q = p
            for i in o:
                q = q.d(i)
            out.setdefault(o, []).append(q.eval_many(pts))
    return {o: np.stack(v) for o, v in out.items()}


def corners(spec):
    """spec: list of (name, [values]) -> list of dicts"""
    names = [n for n, _ in spec]
    return [dict(zip(names, vals)) for vals in itertools.product(*[v for _, v in spec])]


def compare(site, got, exact, labels, ctx):
    err = np.abs(got - exact) / (1.0 + np.abs(exact))
    bad = np.argwhere(err > 1e-9)
    if len(bad):
        i = tuple(int(x) for x in bad[0])
        return [V(site, "residual_differs_from_documented_equation", f"{ctx}; field {labels[i[0]]}; index {i}: got {got[i]} expected {exact[i]}; {len(bad)} value(s) off")]
    return []


def spot(site, kern, F, pv, pts, exact, labels, viol, as_python=True):
    """eager evaluation (no jit / vmap) of a few (field, parameter corner, point) triples, scalar parameters as Python floats"""
    for fi in sorted({0, len(F) // 2, len(F) - 1}):
        for ci in sorted({0, len(pv) - 1}):
            for pi in (0, len(pts) - 1):
                par = [float(x) for x in pv[ci]] if as_python else jnp.asarray(pv[ci])
                e = np.asarray(kern(jnp.asarray(F[fi]), par, jnp.asarray(pts[pi]))).reshape(-1)
                ex = np.asarray(exact[fi, ci, pi]).reshape(-1)
                if np.any(np.abs(e - ex) > 1e-9 * (1 + np.abs(ex))):
                    viol.append(V(site, "eager_residual_differs_from_documented_equation", f"field {labels[fi]} params {pv[ci].tolist()} point {pts[pi].tolist()}: got {e.tolist()} expected {ex.tolist()}"))
                    return


def setp(nn0, coef):
    return eqx.tree_at(lambda mm: mm.coef, nn0, coef)


def run_case(case):
    eq = case["eq"]
    if eq == "exact":
        return run_exact(case)
    deg, k = case["deg"], case["grid"]
    viol = []
    T = case.get("Tmax", 1.0)
    if eq == "burgers":
        nvar, expo = 2, nets.monomials(2, deg)
        pts = grid_points(2, k)
        combos, F = basis_fields(len(expo), 1, pairs=True)
        u = nets.poly_pinn("nonstatio_PDE", np.zeros((1, len(expo))), expo)
        het = bool(case.get("hetero"))
        dl = JL.BurgerEquation(Tmax=T, eq_params_heterogeneity={"nu": (lambda t, x, u, p: p.eq_params["nu"] * (1.0 + 0.5 * t[0]) + 0.1 * x[0])} if het else None)
        cs = corners([("nu", [0.3, 1.7])])
        nn0 = u.init_params()

        def kern(coef, pv, z):
            p = jinns.parameters.Params(nn_params=setp(nn0, coef), eq_params={"nu": pv[0]})
            return dl.evaluate(z[:1], z[1:], u, p)
        pv = np.array([[c["nu"]] for c in cs])
        got = np.asarray(jax.jit(jax.vmap(jax.vmap(jax.vmap(kern, (None, None, 0)), (None, 0, None)), (0, None, None)))(jnp.asarray(F), jnp.asarray(pv), jnp.asarray(pts)))
        got = got.reshape(len(F), len(cs), len(pts))
        exact = np.zeros_like(got)
        for i, coef in enumerate(F):
            J = jets(coef, expo, 2, pts, [(), (0,), (1,), (1, 1)])
            for j, c in enumerate(cs):
                nu_ = c["nu"] * (1.0 + 0.5 * pts[:, 0]) + 0.1 * pts[:, 1] if het else c["nu"]
                exact[i, j] = J[(0,)][0] + T * (J[()][0] * J[(1,)][0] - nu_ * J[(1, 1)][0])
        labels = [str([(c_, expo[m]) for c_, m in cb]) for cb in combos]
        viol += compare("BurgerEquation" + ("/heterogeneous_nu(t,x)" if het else ""), got, exact, labels, f"Tmax={T}")
        spot("BurgerEquation" + ("/heterogeneous_nu(t,x)" if het else ""), kern, F, pv, pts, exact, labels, viol)
    elif eq == "fisher":
        d = case["d"]
        nvar, expo = 1 + d, nets.monomials(1 + d, deg)
        pts = grid_points(nvar, k)
        combos, F = basis_fields(len(expo), 1, pairs=True)
        u = nets.poly_pinn("nonstatio_PDE", np.zeros((1, len(expo))), expo)
        het = bool(case.get("hetero"))
        dl = JL.FisherKPP(Tmax=T, eq_params_heterogeneity={"g": None, "r": (lambda t, x, u, p: p.eq_params["r"] * (1.0 - 0.4 * t[0]) + 0.2 * x[0])} if het else None)
        cs = corners([("D", [0.2, 1.3]), ("r", [0.5, -1.1]), ("g", [0.7, 2.0])])
        nn0 = u.init_params()

        def kern(coef, pv, z):
            p = jinns.parameters.Params(nn_params=setp(nn0, coef), eq_params={"D": pv[0], "r": pv[1], "g": pv[2]})
            return dl.evaluate(z[:1], z[1:], u, p)
        pv = np.array([[c["D"], c["r"], c["g"]] for c in cs])
        got = np.asarray(jax.jit(jax.vmap(jax.vmap(jax.vmap(kern, (None, None, 0)), (None, 0, None)), (0, None, None)))(jnp.asarray(F), jnp.asarray(pv), jnp.asarray(pts)))
        got = got.reshape(len(F), len(cs), len(pts))
        exact = np.zeros_like(got)
        for i, coef in enumerate(F):
            J = jets(coef, expo, nvar, pts, [(), (0,)] + [(a, a) for a in range(1, nvar)])
            lap = sum(J[(a, a)][0] for a in range(1, nvar))
            for j, c in enumerate(cs):
                U = J[()][0]
                r_ = c["r"] * (1.0 - 0.4 * pts[:, 0]) + 0.2 * pts[:, 1] if het else c["r"]
                exact[i, j] = J[(0,)][0] - T * (c["D"] * lap + U * (r_ - c["g"] * U))
        labels = [str([(c_, expo[m]) for c_, m in cb]) for cb in combos]
        viol += compare(f"FisherKPP/d{d}" + ("/heterogeneous_r(t,x)" if het else ""), got, exact, labels, f"Tmax={T} d={d}")
        spot(f"FisherKPP/d{d}" + ("/heterogeneous_r(t,x)" if het else ""), kern, F, pv, pts, exact, labels, viol)
    elif eq == "ou":
        nvar, expo = 3, nets.monomials(3, deg)
        pts = grid_points(3, k)
        combos, F = basis_fields(len(expo), 1, pairs=False)
        u = nets.poly_pinn("nonstatio_PDE", np.zeros((1, len(expo))), expo)
        dl = JL.OU_FPENonStatioLoss2D(Tmax=T)
        cs = corners([("a0", [0.5, 1.5]), ("a1", [0.8, -0.6]), ("m0", [-0.4, 0.8]), ("m1", [0.3, 1.1]), ("s0", [0.5, 1.0, 1.6]), ("s1", [0.7, 1.2, 2.0])])
        nn0 = u.init_params()

        def kern(coef, pv, z):
            p = jinns.parameters.Params(nn_params=setp(nn0, coef), eq_params={"alpha": pv[0:2], "mu": pv[2:4], "sigma": pv[4:6]})
            return dl.evaluate(z[:1], z[1:], u, p)
        pv = np.array([[c["a0"], c["a1"], c["m0"], c["m1"], c["s0"], c["s1"]] for c in cs])
        got = np.asarray(jax.jit(jax.vmap(jax.vmap(jax.vmap(kern, (None, None, 0)), (None, 0, None)), (0, None, None)))(jnp.asarray(F), jnp.asarray(pv), jnp.asarray(pts)))
        got = got.reshape(len(F), len(cs), len(pts))
        exact = np.zeros_like(got)
        X = [pts[:, 1], pts[:, 2]]
        for i, coef in enumerate(F):
            J = jets(coef, expo, 3, pts, [(), (0,), (1,), (2,), (1, 1), (2, 2)])
            U = J[()][0]
            for j, c in enumerate(cs):
                al, mu, sg = [c["a0"], c["a1"]], [c["m0"], c["m1"]], [c["s0"], c["s1"]]
                # d/dx_i [alpha_i (mu_i - x_i) u] = -alpha_i u + alpha_i (mu_i - x_i) u_xi
                order1 = sum(-al[a] * U + al[a] * (mu[a] - X[a]) * J[(a + 1,)][0] for a in range(2))
                order2 = sum(0.5 * sg[a] ** 2 * J[(a + 1, a + 1)][0] for a in range(2))
                exact[i, j] = -J[(0,)][0] + T * (-order1 + order2)
        labels = [str([(c_, expo[m]) for c_, m in cb]) for cb in combos]
        viol += compare("OU_FPENonStatioLoss2D", got, exact, labels, f"Tmax={T}")
        spot("OU_FPENonStatioLoss2D", kern, F, pv, pts, exact, labels, viol, as_python=False)
    elif eq == "glv":
        viol += run_glv(case)
        return dict(viol=viol, evals=case["ns"] * 50, nontrivial=[f"glv|{case['ns']}|{case['layout']}|{case['perm']}|{T}|{i}" for i in range(3)],
                    outcomes=[f"glv|{case['ns']}|{case['layout']}|{case['perm']}"], sample={"case": case})
    elif eq == "mass":
        expo = nets.monomials(2, deg)
        pts = grid_points(2, k)
        combos, F = basis_fields(len(expo), 2, pairs=False)
        u = nets.poly_pinn("statio_PDE", np.zeros((2, len(expo))), expo)
        dl = JL.MassConservation2DStatio(nn_key="u")
        nn0 = u.init_params()

        def kern(coef, z):
            pd = jinns.parameters.ParamsDict(nn_params={"u": setp(nn0, coef)}, eq_params={"nu": jnp.asarray(0.5)})
            return dl.evaluate(z, {"u": u}, pd)
        got = np.asarray(jax.jit(jax.vmap(jax.vmap(kern, (None, 0)), (0, None)))(jnp.asarray(F), jnp.asarray(pts))).reshape(len(F), len(pts))
        exact = np.zeros_like(got)
        for i, coef in enumerate(F):
            J = jets(coef, expo, 2, pts, [(0,), (1,)])
            exact[i] = J[(0,)][0] + J[(1,)][1]
        labels = [str([(c_, expo[m]) for c_, m in cb]) for cb in combos]
        viol += compare("MassConservation2DStatio", got, exact, labels, "")
        cs = [0]
    elif eq == "ns":
        expo = nets.monomials(2, deg)
        M = len(expo)
        pts = grid_points(2, k)
        combos, F = basis_fields(M, 3, pairs=True)  # components: u_x, u_y, p
        shared = case["layout"] == "shared"
        if shared:
            net = nets.PolyNet(jnp.zeros((3, M)), tuple(expo))
            u = nets.make_pinn(net, "statio_PDE", 3, output_slice=jnp.s_[0:2])
            pn = nets.make_pinn(net, "statio_PDE", 3, output_slice=jnp.s_[2:3])
        else:
            u = nets.poly_pinn("statio_PDE", np.zeros((2, M)), expo)
            pn = nets.poly_pinn("statio_PDE", np.zeros((1, M)), expo)
        dl = JL.NavierStokes2DStatio(u_key="u", p_key="p")
        cs = corners([("rho", [0.5, 2.0]), ("nu", [0.3, 1.7])])
        nu0, np0 = u.init_params(), pn.init_params()

        def kern(coef, pv, z):
            if shared:
                nnp = {"u": setp(nu0, coef), "p": setp(np0, coef)}
            else:
                nnp = {"u": setp(nu0, coef[:2]), "p": setp(np0, coef[2:])}
            pd = jinns.parameters.ParamsDict(nn_params=nnp, eq_params={"rho": pv[0], "nu": pv[1]})
            return dl.evaluate(z, {"u": u, "p": pn}, pd)
        pv = np.array([[c["rho"], c["nu"]] for c in cs])
        got = np.asarray(jax.jit(jax.vmap(jax.vmap(jax.vmap(kern, (None, None, 0)), (None, 0, None)), (0, None, None)))(jnp.asarray(F), jnp.asarray(pv), jnp.asarray(pts)))
        got = got.reshape(len(F), len(cs), len(pts), 2)
        exact = np.zeros_like(got)
        for i, coef in enumerate(F):
            J = jets(coef, expo, 2, pts, [(), (0,), (1,), (0, 0), (1, 1)])
            ux, uy = J[()][0], J[()][1]
            for j, c in enumerate(cs):
                for comp in range(2):
                    adv = ux * J[(0,)][comp] + uy * J[(1,)][comp]
                    gp = J[(comp,)][2]
                    lap = J[(0, 0)][comp] + J[(1, 1)][comp]
                    exact[i, j, :, comp] = adv + gp / c["rho"] - c["nu"] * lap
        labels = [str([(c_, expo[m]) for c_, m in cb]) for cb in combos]
        viol += compare(f"NavierStokes2DStatio/{case['layout']}", got, exact, labels, "")
        spot(f"NavierStokes2DStatio/{case['layout']}", kern, F, pv, pts, exact, labels, viol)
    nontrivial = [f"{eq}|{case.get('d')}|{case.get('layout')}|{case.get('hetero')}|{T}|{labels[i]}" for i in range(len(labels)) if np.any(np.abs(exact[i]) > 0)]
    return dict(viol=viol, evals=int(np.prod(exact.shape)), nontrivial=nontrivial, outcomes=[f"{eq}|{case.get('d')}|{case.get('layout')}|{case.get('hetero')}|{T}|{round(float(np.sum(np.abs(exact))), 5)}"],
                sample={"case": case, "fields": len(labels), "param_corners": len(cs), "points": len(pts)})


class ExpPoly(eqx.Module):
    coef: jax.Array
    expo: tuple = eqx.field(static=True)

    def __call__(self, z):
        e = jnp.asarray(np.array(self.expo, dtype=float))
        mono = jnp.prod(jnp.where(e > 0, z[None, :] ** e, 1.0), axis=1)
        return jnp.exp(self.coef @ mono)


def run_glv(case):
    ns, T, deg = case["ns"], case["Tmax"], case["deg"]
    names = ["N1", "N10", "N"][:ns]  # valid population names; some are substrings of others
    expo = nets.monomials(1, deg)
    M = len(expo)
    ts = np.array([0.1, 0.45, 0.9, 1.3][: case["grid"]])
    rng = np.random.RandomState(7)
    viol = []
    for main in range(ns):
        others_idx = [i for i in range(ns) if i != main]
        others_idx = [others_idx[p] for p in case["perm"]] if len(case["perm"]) == len(others_idx) else others_idx
        key_main, keys_other = names[main], [names[i] for i in others_idx]
        dl = JL.GeneralizedLotkaVolterra(key_main=key_main, keys_other=keys_other, Tmax=T)
        # fields: exponent polynomials; basis = one-hot per species + pair sums over (species, monomial)
        basis = [(s, m) for s in range(ns) for m in range(M)]
        combos = [(b,) for b in basis] + list(itertools.combinations(basis, 2))
        u_dict = {n: nets.make_pinn(ExpPoly(jnp.zeros((1, M)), tuple(expo)), "ODE", 1) for n in reversed(names)}  # non-alphabetical insertion
        for r_, c_, a_ in itertools.product([0.4, -1.2], [0.3, 1.1], [0, 1]):
            inter = {n: np.array([0.2 + 0.3 * j + 0.5 * i * (1 if a_ else -1) for j in range(ns)]) for i, n in enumerate(names)}
            per = {n: {"growth_rate": jnp.asarray(r_ + 0.1 * i), "carrying_capacity": jnp.asarray(c_ - 0.05 * i), "interactions": jnp.asarray(inter[n])}
                   for i, n in enumerate(names)}
            eqp = per if case["layout"] == "keyed" else per[key_main]
            pm = {k: np.asarray(v, dtype=float) for k, v in per[key_main].items()}
            for combo in combos:
                coefs = {n: np.zeros((1, M)) for n in names}
                for (s, m) in combo:
                    coefs[names[s]][0, m] += 0.5
                pd = jinns.parameters.ParamsDict(
                    nn_params={n: eqx.tree_at(lambda mm: mm.coef, u_dict[n].init_params(), jnp.asarray(coefs[n])) for n in names[1:] + names[:1]}, eq_params=eqp)
                got = np.array([np.asarray(dl.evaluate(jnp.asarray(t), u_dict, pd)).reshape(-1)[0] for t in ts]) if False else None
                f = _glv_eval(dl, u_dict)
                got = np.asarray(f(jnp.asarray(ts), pd)).reshape(len(ts))
                # exact
                P = {n: Poly(1, {expo[m]: Fraction(coefs[n][0, m]).limit_denominator(1000) for m in range(M) if coefs[n][0, m]}) for n in names}
                U = {n: np.exp(P[n].eval_many(ts[:, None])) for n in names}
                dlog = P[key_main].d(0).eval_many(ts[:, None])
                order = [key_main] + keys_other
                inter_sum = sum(pm["interactions"][j] * U[n] for j, n in enumerate(order))
                carry = pm["carrying_capacity"] * sum(U[n] for n in order)
                exact = dlog + T * (-pm["growth_rate"] - inter_sum + carry)
                err = np.abs(got - exact) / (1 + np.abs(exact))
                if not np.any(err > 1e-9) and combo in combos[:2]:
                    # the same loss object evaluated again, eagerly (no cached trace): must give the same residual
                    got_e = np.array([np.asarray(dl.evaluate(jnp.asarray(t), u_dict, pd)).reshape(-1)[0] for t in ts[:2]])
                    if np.any(np.abs(got_e - exact[:2]) > 1e-9 * (1 + np.abs(exact[:2]))):
                        viol.append(V("GeneralizedLotkaVolterra", "repeated_eager_evaluation_differs_from_log_form_equation",
                                      f"main={key_main} others={keys_other} layout={case['layout']} field {combo}: got {got_e.tolist()} expected {exact[:2].tolist()}"))
                        return viol
                if np.any(err > 1e-9):
                    viol.append(V("GeneralizedLotkaVolterra", "residual_differs_from_log_form_equation",
                                  f"main={key_main} others={keys_other} layout={case['layout']} Tmax={T} field {combo}: got {got.tolist()} expected {exact.tolist()}"))
                    return viol
    return viol


_GLV_CACHE = {}


def _glv_eval(dl, u_dict):
    key = (id(dl),)
    if key not in _GLV_CACHE:
        _GLV_CACHE.clear()
        _GLV_CACHE[key] = jax.jit(jax.vmap(lambda t, pd: dl.evaluate(t, u_dict, pd), (0, None)))
    return _GLV_CACHE[key]


class Frac(eqx.Module):
    """x / (1 + T t): exact Burgers solution (nu arbitrary, u_xx = 0)"""

    T: jax.Array

    def __call__(self, z):
        return (z[1] / (1.0 + self.T * z[0]))[None]


def run_exact(case):
    viol = []
    n = 0

    def chk(name, vals):
        nonlocal n
        n += 1
        vals = np.asarray(vals)
        if np.any(np.abs(vals) > 1e-10):
            viol.append(V(name, "residual_of_an_exact_solution_is_not_zero", f"max |residual| {np.max(np.abs(vals))}"))

    pts2 = grid_points(2, 3)
    # Burgers x/(1+T t)
    for T in (1.0, 2.5):
        u = nets.make_pinn(Frac(jnp.asarray(T)), "nonstatio_PDE", 1)
        p = jinns.parameters.Params(nn_params=u.init_params(), eq_params={"nu": jnp.asarray(0.37)})
        pts = np.abs(pts2)
        chk("BurgerEquation", jax.vmap(lambda z: JL.BurgerEquation(Tmax=T).evaluate(z[:1], z[1:], u, p))(jnp.asarray(pts)))
    # Fisher equilibrium r/g
    for d in (1, 2):
        expo = nets.monomials(1 + d, 1)
        coef = np.zeros((1, len(expo)))
        coef[0, 0] = 0.8 / 1.6
        u = nets.poly_pinn("nonstatio_PDE", coef, expo)
        p = jinns.parameters.Params(nn_params=u.init_params(), eq_params={"D": jnp.asarray(0.9), "r": jnp.asarray(0.8), "g": jnp.asarray(1.6)})
        pts = grid_points(1 + d, 3)
        chk("FisherKPP", jax.vmap(lambda z: JL.FisherKPP(Tmax=2.5).evaluate(z[:1], z[1:], u, p))(jnp.asarray(pts)))
    # OU stationary Gaussian exp(-sum alpha_i (x_i - mu_i)^2 / sigma_i^2)
    al, mu, sg = np.array([0.7, 1.3]), np.array([0.2, -0.5]), np.array([0.9, 1.4])
    expo = nets.monomials(3, 2)
    P = Poly(3)
    for a in range(2):
        xi = Poly.var(3, a + 1) - float(mu[a])
        P = P - (xi * xi) * Fraction(al[a] / sg[a] ** 2).limit_denominator(10**12)
    u = nets.make_pinn(ExpPoly(jnp.asarray(P.coef_vector(expo))[None], tuple(expo)), "nonstatio_PDE", 1)
    p = jinns.parameters.Params(nn_params=u.init_params(), eq_params={"alpha": jnp.asarray(al), "mu": jnp.asarray(mu), "sigma": jnp.asarray(sg)})
    chk("OU_FPENonStatioLoss2D", jax.vmap(lambda z: JL.OU_FPENonStatioLoss2D(Tmax=2.5).evaluate(z[:1], z[1:], u, p))(jnp.asarray(grid_points(3, 3))))
    # mass conservation: stream function psi = x^2 y - 0.5 y^2 + x  => u = (psi_y, -psi_x)
    expo = nets.monomials(2, 2)
    psi = Poly.mono((2, 1)) - Poly.mono((0, 2)) * Fraction(1, 2) + Poly.mono((1, 0))
    coef = np.stack([psi.d(1).coef_vector(expo), (psi.d(0) * -1).coef_vector(expo)])
    u = nets.poly_pinn("statio_PDE", coef, expo)
    pd = jinns.parameters.ParamsDict(nn_params={"u": u.init_params()}, eq_params={"nu": jnp.asarray(1.0)})
    chk("MassConservation2DStatio", jax.vmap(lambda z: JL.MassConservation2DStatio(nn_key="u").evaluate(z, {"u": u}, pd))(jnp.asarray(pts2)))
    # Navier-Stokes: Poiseuille flow u = (a (1 - y^2), 0), p = -2 a nu rho x
    a, nu, rho = 0.6, 0.35, 1.8
    cu = np.zeros((2, len(expo)))
    cu[0, expo.index((0, 0))] = a
    cu[0, expo.index((0, 2))] = -a
    cp = np.zeros((1, len(expo)))
    cp[0, expo.index((1, 0))] = -2 * a * nu * rho
    u, pn = nets.poly_pinn("statio_PDE", cu, expo), nets.poly_pinn("statio_PDE", cp, expo)
    pd = jinns.parameters.ParamsDict(nn_params={"u": u.init_params(), "p": pn.init_params()}, eq_params={"rho": jnp.asarray(rho), "nu": jnp.asarray(nu)})
    chk("NavierStokes2DStatio", jax.vmap(lambda z: JL.NavierStokes2DStatio(u_key="u", p_key="p").evaluate(z, {"u": u, "p": pn}, pd))(jnp.asarray(pts2)))
    # GLV equilibrium: constant u*, growth chosen so that r + sum a u - c sum u = 0
    us = {"a": 0.7, "b": 1.9}
    inter, c = np.array([0.4, -0.3]), 0.25
    r = -(inter[0] * us["a"] + inter[1] * us["b"]) + c * (us["a"] + us["b"])
    expo1 = nets.monomials(1, 1)
    ud = {k: nets.make_pinn(ExpPoly(jnp.asarray([[np.log(v), 0.0]]), tuple(expo1)), "ODE", 1) for k, v in us.items()}
    pd = jinns.parameters.ParamsDict(nn_params={k: ud[k].init_params() for k in ud},
                                     eq_params={"growth_rate": jnp.asarray(r), "carrying_capacity": jnp.asarray(c), "interactions": jnp.asarray(inter)})
    dl = JL.GeneralizedLotkaVolterra(key_main="a", keys_other=["b"], Tmax=3.0)
    chk("GeneralizedLotkaVolterra", jax.vmap(lambda t: dl.evaluate(t, ud, pd))(jnp.asarray([0.1, 0.5, 1.2])))
    return dict(viol=viol, evals=n, nontrivial=[f"exact|{i}" for i in range(n)], outcomes=[f"exact|{n}"], sample={"case": "exact solutions", "checked": n})
