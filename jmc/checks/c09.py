"""C09 — mini-batching permutes the point set and serves each point once per epoch.

Machine: state = (real generator, one EpochModel per store); ops = get_batch and, for
the PDE generators, the public partial draws.  Every word up to the depth bound is
executed on the real generator; the reference model observes store, cursor and the
served rows after every op."""
from __future__ import annotations

import itertools
import math

import numpy as np
import equinox as eqx

from jmc.core import gens
from jmc.core.explorer import explore, Stats
from jmc.core.refmodels import EpochModel, V

ID = "C09"
LEVEL = "model_checking"
X64 = False
RULE = (
    "complete enumeration of (generator kind x n x every b<=n x key x mode) configurations; per configuration every "
    "word over the enabled draw operations up to the depth bound is executed on the real generator (3 epochs + 2 draws "
    "for get_batch chains; all interleavings of inside/border/temporal/get_batch for PDE generators in the "
    "interleaving cases).  A case is non-trivial when its history crossed at least two reshuffles; distinct = distinct "
    "(kind,n,b,alphabet,mode)."
)
ASSUMPTIONS = [
    "PRNG keys: 3 fixed-derivation keys per configuration (one from VERIF_SEED); the invariants do not read the key",
    "points are identified by value; configurations whose initial store has duplicate values are re-keyed",
    "a reshuffle is observed as cursor == 0 after a draw (anchor: curr_*_idx = start of the last served batch)",
    "sizes above the bound (n<=6 quick / n<=8 thorough) are not explored",
]
BOUNDS = {
    "quick": {"n_max": 6, "keys": 3, "epochs": 3, "interleave_depth": 5, "modes": ["eager", "jit(subset)"]},
    "thorough": {"n_max": 8, "keys": 3, "epochs": 3, "interleave_depth": 7, "modes": ["eager", "jit"]},
}


def _pairs(nmax):
    return [(n, b) for n in range(1, nmax + 1) for b in range(1, n + 1)]


def cases(tier, seed):
    nmax = BOUNDS[tier]["n_max"]
    pairs = _pairs(nmax)
    keys = [seed + 101, 7, 1234]
    out = []
    for i, (n, b) in enumerate(pairs):
        n2, b2 = pairs[(i + 5) % len(pairs)]
        n3, b3 = pairs[(i + 11) % len(pairs)]
        for ki, key in enumerate(keys):
            # "jit" = eqx.filter_jit (Python ints stay static); "jaxjit" = jax.jit as jinns.solve does it (integer fields such
            # as the initial cursors become int32 tracers in the default 32-bit mode)
            modes = ["eager", "jit", "jaxjit"] if (tier == "thorough" or ki == 0) else ["eager"]
            for mode in modes:
                base = dict(key=key)
                cfgs = [
                    dict(kind="ode", nt=n, bt=b, tmin=0.0, tmax=1.0, method="uniform"),
                    dict(kind="ode", nt=n, bt=b, tmin=-1.0, tmax=2.0, method="grid"),
                    dict(kind="statio", n=n, bx=b, dim=1, min_pts=[-1.0], max_pts=[2.0], nb=None, bb=None),
                    dict(kind="statio", n=n, bx=b, dim=2, min_pts=[-1.0, 0.0], max_pts=[2.0, 1.0], nb=4 * n2, bb=b2),
                    dict(kind="nonstatio", nt=n, bt=b, n=n2, bx=b2, dim=1, min_pts=[0.0], max_pts=[1.0], nb=None, bb=None),
                    dict(kind="nonstatio", nt=n, bt=b, n=n2, bx=b2, dim=2, min_pts=[-1.0, 0.0], max_pts=[2.0, 1.0],
                         nb=4 * n3, bb=b3, tmin=0.0, tmax=2.0),
                    dict(kind="obs", n=n, b=b, d_in=1 + (i % 2), n_eq=i % 2),
                    dict(kind="param", n=n, b=b, ranges={"nu": [0.5, 2.0], "mu": [-1.0, 1.0]},
                         user={"mu": [float(3 * j + 1) for j in range(n)]}),
                ]
                if mode == "eager":
                    cfgs.append(dict(kind="param", n=n, b=b, ranges={"nu": [0.5, 2.0], "mu": [-1.0, 1.0], "xi": [3.0, 4.0]},
                                     user={"mu": [float(3 * j + 1) for j in range(n)]}, keydict=True))
                if mode == "eager" and n >= 2:
                    # n_start / nt_start are "hidden from the user" (ignored) when no RAR is requested: passing them must not
                    # change the epoch
                    cfgs += [
                        dict(kind="ode", nt=n, bt=b, tmin=0.0, tmax=1.0, method="uniform", nt_start=max(1, n - 1)),
                        dict(kind="statio", n=n, bx=b, dim=1, min_pts=[-1.0], max_pts=[2.0], nb=None, bb=None, n_start=max(1, n - 1)),
                        dict(kind="nonstatio", nt=n, bt=b, n=n2, bx=b2, dim=1, min_pts=[0.0], max_pts=[1.0], nb=None, bb=None,
                             n_start=max(1, n2 - 1), nt_start=max(1, n - 1)),
                    ]
                for cfg in cfgs:
                    cfg.update(base)
                    if mode in ("jit", "jaxjit") and cfg["kind"] == "param":
                        # user tables are *static* array fields of DataGeneratorParameter: equinox cannot
                        # compare them across jit calls (upstream limitation, unrelated to C09): jit only
                        # the range-only loader
                        cfg = dict(cfg, user={})
                    if mode in ("jit", "jaxjit") and cfg["kind"] == "obs":
                        cfg = dict(cfg, n_eq=0)  # same limitation for the static observed_eq_params dict
                    out.append(dict(cfg=cfg, alphabet=["G"], depth=None, mode=mode))
    # interleavings of partial draws on PDE generators (separate cursors, shared key)
    d = BOUNDS[tier]["interleave_depth"]
    small = [(1, 1), (2, 1), (2, 2), (3, 2)] if tier == "quick" else [(1, 1), (2, 1), (2, 2), (3, 1), (3, 2), (4, 2)]
    for j, (n, b) in enumerate(small):
        n2, b2 = small[(j + 1) % len(small)]
        n3, b3 = small[(j + 2) % len(small)]
        for key in keys[: (1 if tier == "quick" else 2)]:
            out.append(dict(cfg=dict(kind="statio", n=n, bx=b, dim=2, min_pts=[-1.0, 0.0], max_pts=[2.0, 1.0], nb=4 * n2, bb=b2, key=key),
                            alphabet=["I", "B", "G"], depth=d, mode="jit"))
            out.append(dict(cfg=dict(kind="nonstatio", nt=n, bt=b, n=n2, bx=b2, dim=2, min_pts=[-1.0, 0.0], max_pts=[2.0, 1.0],
                                     nb=4 * n3, bb=b3, tmin=0.0, tmax=2.0, key=key),
                            alphabet=["I", "B", "T", "G"], depth=d - 1, mode="jit"))
    # simplest first
    out.sort(key=lambda c: (len(c["alphabet"]), c["cfg"].get("n", 0) + c["cfg"].get("nt", 0), c["mode"] != "eager"))
    return out


_OPS = {"G": "get_batch", "I": "inside_batch", "B": "border_batch", "T": "temporal_batch"}
_OP_STREAM = {"I": "omega", "B": "border", "T": "times"}
_JIT = {}


def _call(gen, op, mode):
    meth = _OPS[op]
    if mode == "eager":
        return getattr(gen, meth)()
    f = _JIT.get((meth, mode))
    if f is None:
        if mode == "jaxjit":
            import jax
            f = _JIT[(meth, mode)] = jax.jit(lambda g, meth=meth: getattr(g, meth)())
        else:
            f = _JIT[(meth, mode)] = eqx.filter_jit(lambda g, meth=meth: getattr(g, meth)())
    return f(gen)


def run_case(case):
    cfg, mode = case["cfg"], case["mode"]
    gen = gens.build(cfg)
    strs = gens.streams(cfg, gen)
    site0 = f"{cfg['kind']}{cfg.get('dim', '')}"
    models = {}
    for tries in range(5):
        models = {s.name: EpochModel(f"{site0}/{s.name}", s.n, s.b, s.store(gen)) for s in strs}
        if all(m.distinct() for m in models.values()):
            break
        cfg = dict(cfg, key=cfg["key"] + 1000)
        gen = gens.build(cfg)
    viol0 = []
    for s in strs:  # C08 checks counts; here only that the model's n matches the store
        if s.store(gen).shape[0] != s.n:
            # the epoch accounting needs the declared n; a wrong count is C08's business, skip the stream
            viol0 = None
    if viol0 is None:
        return {"evals": 0, "viol": [], "nontrivial": [], "outcomes": []}
    depth = case["depth"]
    if depth is None:
        depth = max(3 * math.ceil(s.n / s.b) + 2 for s in strs)
    by_name = {s.name: s for s in strs}

    def step(state, op, hist):
        g, ms = state
        before = {s.name: (s.store(g), s.cursor(g)) for s in strs}
        g2, res = _call(g, op, mode)
        if op == "G":
            parts = gens.batch_parts(cfg, g2, res)
            touched = set(parts)
        else:
            nm = _OP_STREAM[op]
            touched = {nm} if nm in by_name else set()
            parts = {nm: by_name[nm].from_batch(res)} if nm in by_name else {}
        viols, ms2 = [], dict(ms)
        for s in strs:
            sa, ca = s.store(g2), s.cursor(g2)
            if s.name in touched:
                ms2[s.name], v = ms[s.name].observe(sa, ca, parts[s.name])
            else:
                v = ms[s.name].untouched(before[s.name][0], before[s.name][1], sa, ca)
            viols += v
        # the argument generator must be left as it was (frozen module): cheap aliasing check
        for s in strs:
            if not np.array_equal(before[s.name][0], s.store(g)) or before[s.name][1] != s.cursor(g):
                viols.append(V(f"{site0}/{s.name}", "argument_generator_mutated_by_draw"))
        return (g2, ms2), viols

    def canon(state):
        g, ms = state
        return tuple(ms[s.name].canon(s.cursor(g)) for s in strs)

    st = explore((gen, models), lambda s, h: case["alphabet"], step, canon, depth,
                 outcome=lambda s: str(canon(s)))
    epochs = 0
    # non-trivial: at least two reshuffles crossed on some stream along the longest trace (chains) / any state (trees)
    # measured from the canonical forms: a state with nb_in_epoch==1 reached after depth>1
    nontriv = []
    if st.max_depth >= 2 and len(st.canon) >= 2:
        nontriv = [f"{cfg['kind']}|{cfg.get('dim')}|{cfg.get('method')}|{[ (s.n, s.b) for s in strs]}|{case['alphabet']}|{mode}"]
    sample = {"cfg": cfg, "mode": mode, "ops": st.sample_trace, "states": len(st.canon)}
    return st.as_result({"nontrivial": nontriv, "sample": sample})
