"""C10 — network wrappers honour their calling and output conventions.

Bounded-exhaustive over configurations of create_PINN / create_SPINN / create_HYPERPINN;
oracle: an independent NumPy forward pass from the weight leaves read from the
parameters (W x + b, activation, squeeze, transforms, slice, trailing axis)."""
from __future__ import annotations

import itertools

import numpy as np
import jax
import jax.numpy as jnp
import equinox as eqx
import jinns
from jinns.parameters import Params

from jmc.core.refmodels import V

ID = "C10"
LEVEL = "exploration"
X64 = True
RULE = (
    "complete enumeration of PINN configurations (architecture {1,2 hidden layers} x activation {tanh, sin} x outputs {1,2,3} x "
    "equation type {ODE, stationary d=1,2, non-stationary d=1,2} x input transform {none, scaled by a parameter} x output transform "
    "{none, uses inputs, uses a parameter} x shared outputs {none, two slices} x parameters passed as {Params, bare network "
    "parameters} x time as {0-d, (1,)}), SPINN (d {1,2,3} x r {1,2} x m {1,2,3} x batch {2,3} x {stationary, non-stationary}) and "
    "HYPERPINN (hyper-parameter subsets of {a, b(vector)} x inner architectures x equation type); each evaluated at 3 inputs. "
    "Non-trivial = every case (outputs are generic real numbers); distinct by configuration."
)
ASSUMPTIONS = [
    "network weights come from fixed PRNG keys (one derived from VERIF_SEED); the forward-pass identity is checked for those weights",
    "eqx.nn.Linear stores (weight (out,in), bias (out,)); the hyper-network output is split in jax.tree_util.tree_leaves order of the inner parameters",
    "x64; 1e-12 relative",
]
BOUNDS = {"quick": {"stride": 1}, "thorough": {"stride": 1}}
ACT = {"tanh": (jnp.tanh, np.tanh), "sin": (jnp.sin, np.sin)}
EQS = [("ODE", 0), ("statio_PDE", 1), ("statio_PDE", 2), ("nonstatio_PDE", 1), ("nonstatio_PDE", 2)]


def cases(tier, seed):
    out = []
    i = 0
    for hidden in ((2,), (3, 2)):
        for act in ("tanh", "sin"):
            for o in (1, 2, 3):
                for (eq_type, dx) in EQS:
                    for it in ("none", "scale"):
                        for ot in ("none", "inputs", "param"):
                            for shared in ((False, True, "int", "int-1", "int0") if o == 3 else (False,)):
                                for bare in ((False, True) if (it == "none" and ot != "param") else (False,)):
                                    for tshape in (("0d", "1") if eq_type == "ODE" else ("1",)):
                                        i += 1
                                        if i % BOUNDS[tier]["stride"]:
                                            continue
                                        out.append(dict(type="pinn", hidden=list(hidden), act=act, o=o, eq_type=eq_type, dx=dx, it=it, ot=ot, shared=shared,
                                                        bare=bare, tshape=tshape, key=seed + 13))
    for sl in (None, 0, 1, "0:2"):
        out.append(dict(type="slice_solution", o=3, sl=sl, key=seed + 13))
    for d in (1, 2, 3):
        for r in (1, 2):
            for m in (1, 2, 3):
                for B in (2, 3):
                    for eq_type in (("statio_PDE", "nonstatio_PDE") if d >= 2 else ("statio_PDE",)):
                        out.append(dict(type="spinn", d=d, r=r, m=m, B=B, eq_type=eq_type, key=seed + 13))
    # every admitted number of separated dimensions (the constructor accepts up to 24): one grid point per axis, and two for a
    # few d whose grids stay small
    for d in range(4, 25):
        out.append(dict(type="spinn", d=d, r=2, m=1, B=1, eq_type="statio_PDE" if d % 2 else "nonstatio_PDE", key=seed + 13))
    for d in (4, 9, 18) if tier == "quick" else (4, 9, 12, 17, 18, 19):
        out.append(dict(type="spinn", d=d, r=2, m=2, B=2, eq_type="statio_PDE", key=seed + 13))
    # matrix-valued hyper-parameters (flattened in the declared order, each row-major)
    for hp in (["M", "N"], ["N", "M"], ["M", "b"], ["a", "N"], ["M"]):
        for (eq_type, dx) in (("ODE", 0), ("statio_PDE", 2)):
            out.append(dict(type="hyper", hp=hp, hidden=[2], eq_type=eq_type, dx=dx, o=1, shared=False, it="none", ot="none", key=seed + 13))
    for hp in (["a"], ["b"], ["a", "b"], ["b", "a"]):
        for hidden in ((2,), (3, 2)):
            for (eq_type, dx) in (("ODE", 0), ("statio_PDE", 2), ("nonstatio_PDE", 1)):
                for o in (1, 2):
                    for shared in ((False, True, "int", "int0") if o == 2 else (False,)):
                        for (it, ot) in (("none", "none"), ("scale", "inputs"), ("scale", "none"), ("none", "inputs")):
                            out.append(dict(type="hyper", hp=hp, hidden=list(hidden), eq_type=eq_type, dx=dx, o=o, shared=shared, it=it, ot=ot, key=seed + 13))
    return out


def eqx_list(n_in, hidden, o, act):
    layers, prev = [], n_in
    for h in hidden:
        layers += [(eqx.nn.Linear, prev, h), (ACT[act][0],)]
        prev = h
    layers.append((eqx.nn.Linear, prev, o))
    return tuple(layers)


def np_mlp(params_mlp, x, act):
    """independent forward pass from the parameter leaves of an _MLP partition"""
    leaves = [np.asarray(l, dtype=np.float64) for l in jax.tree_util.tree_leaves(params_mlp)]
    assert len(leaves) % 2 == 0
    h = np.asarray(x, dtype=np.float64)
    nl = len(leaves) // 2
    for k in range(nl):
        W, b = leaves[2 * k], leaves[2 * k + 1]
        h = W @ h + b
        if k < nl - 1:
            h = ACT[act][1](h)
    return h


def inputs_for(eq_type, dx, j):
    t = np.array([0.3 + 0.25 * j])
    x = np.array([0.7 - 0.4 * j, -0.2 + 0.5 * j][:dx])
    return t, x


def close(a, b, tol=1e-12):
    a, b = np.asarray(a, dtype=float), np.asarray(b, dtype=float)
    return a.shape == b.shape and np.all(np.abs(a - b) <= tol * (1 + np.abs(b)))


def run_pinn(case):
    key = jax.random.PRNGKey(case["key"])
    eq_type, dx, o = case["eq_type"], case["dx"], case["o"]
    n_in = dx + (0 if eq_type == "statio_PDE" else 1)
    it = (lambda inp, p: inp * p.eq_params["s"]) if case["it"] == "scale" else None
    ot = {"none": None, "inputs": (lambda inp, out, p: out + jnp.sum(inp)), "param": (lambda inp, out, p: out * p.eq_params["s"] + jnp.sum(out))}[case["ot"]]
    slices = (jnp.s_[0:2], jnp.s_[2:3]) if case["shared"] else None
    if case["shared"] == "int":
        slices = (jnp.s_[0:2], jnp.s_[2])  # an integer selects one output; the component axis must survive
    if case["shared"] == "int-1":
        slices = (jnp.s_[0:2], jnp.s_[-1])  # the last output, counted from the end
    if case["shared"] == "int0":
        slices = (jnp.s_[0], jnp.s_[1:3])  # the integer 0 selects the first output
    us = jinns.utils.create_PINN(key, eqx_list(n_in, case["hidden"], o, case["act"]), eq_type, dx, input_transform=it, output_transform=ot, shared_pinn_outputs=slices)
    us = us if case["shared"] else [us]
    site = "PINN"
    v = []
    s = 1.7
    for ui, u in enumerate(us):
        if case["shared"] and ui == 1 and not eqx.tree_equal(u.init_params(), us[0].init_params()):
            v.append(V(site, "shared_output_networks_do_not_share_parameters", ""))
        # evaluated at parameters that differ from the creation-time ones
        nnp = jax.tree_util.tree_map(lambda x: x * 1.1 + 0.01, u.init_params())
        params = Params(nn_params=nnp, eq_params={"s": jnp.asarray(s)})
        arg_p = nnp if case["bare"] else params
        for j in range(3):
            t, x = inputs_for(eq_type, dx, j)
            if eq_type == "ODE":
                tt = jnp.asarray(t[0]) if case["tshape"] == "0d" else jnp.asarray(t)
                got = u(tt, arg_p)
                inp = t
            elif eq_type == "statio_PDE":
                got = u(jnp.asarray(x), arg_p)
                inp = x
            else:
                got = u(jnp.asarray(t), jnp.asarray(x), arg_p)
                inp = np.concatenate([t, x])
            z = inp * s if case["it"] == "scale" else inp
            raw = np_mlp(nnp, z, case["act"]).squeeze()
            if case["ot"] == "inputs":
                raw = raw + np.sum(inp)
            elif case["ot"] == "param":
                raw = raw * s + np.sum(raw)  # mixes the components: does not commute with the shared-output slice
            if case["shared"]:
                raw = raw[([slice(0, 1), slice(1, 3)] if case["shared"] == "int0" else [slice(0, 2), slice(2, 3)])[ui]]
            exp = np.atleast_1d(raw)
            got = np.asarray(got)
            if got.ndim != 1:
                v.append(V(site, "output_has_no_trailing_component_axis", f"{case}: shape {got.shape}"))
            elif not close(got, exp):
                v.append(V(site, "value_differs_from_transform_of_forward_pass", f"{ {k: v_ for k, v_ in case.items() if k != 'key'} } network {ui}: got {got} expected {exp}"))
            if v:
                break
    return v, 3 * len(us)


def run_slice_solution(case):
    key = jax.random.PRNGKey(case["key"])
    sl = case["sl"]
    arg = sl if not isinstance(sl, str) else jnp.s_[0:2]
    u = jinns.utils.create_PINN(key, eqx_list(1, [2], 3, "tanh"), "ODE", slice_solution=arg)
    exp = {None: [0, 1, 2], 0: [0], 1: [1], "0:2": [0, 1]}[sl]
    v = []
    if not isinstance(u.slice_solution, slice) or list(range(3))[u.slice_solution] != exp:
        v.append(V("PINN", "slice_solution_not_normalised_to_the_declared_components", f"{sl}: {u.slice_solution}"))
    out = np.asarray(u(jnp.asarray(0.4), u.init_params()))
    if out.shape != (3,) or np.asarray(out[u.slice_solution]).shape != (len(exp),):
        v.append(V("PINN", "solution_slice_drops_the_component_axis", f"{out.shape}"))
    return v, 1


def run_spinn(case):
    key = jax.random.PRNGKey(case["key"])
    d, r, m, B, eq_type = case["d"], case["r"], case["m"], case["B"], case["eq_type"]
    u = jinns.utils.create_SPINN(key, d, r, ((eqx.nn.Linear, 1, 3), (jnp.tanh,), (eqx.nn.Linear, 3, r * m)), eq_type, m)
    nnp = jax.tree_util.tree_map(lambda x: x * 1.1 + 0.01, u.init_params())  # not the creation-time parameters
    Z = np.array([[0.3 + 0.4 * i - 0.15 * dd + 0.05 * i * dd for dd in range(d)] for i in range(B)])
    params = Params(nn_params=nnp, eq_params={"s": jnp.asarray(1.0)})
    v = []
    for arg_p in (params, nnp):
        if eq_type == "statio_PDE":
            got = u(jnp.asarray(Z), arg_p)
        else:
            got = u(jnp.asarray(Z[:, :1]), jnp.asarray(Z[:, 1:]), arg_p)
        got = np.asarray(got)
        # independent forward: per-dimension MLPs
        feats = []
        per_dim = nnp.separated_mlp
        for dd in range(d):
            f = np.stack([np_mlp(per_dim[dd], Z[i, dd:dd + 1], "tanh") for i in range(B)])  # (B, r*m)
            feats.append(f)
        import functools
        exp = np.zeros((B,) * d + (m,))
        for mm in range(m):
            # sum over the rank of the outer product (over the axes) of the per-axis feature vectors
            exp[..., mm] = sum(functools.reduce(np.multiply.outer, [feats[dd][:, mm * r + k] for dd in range(d)]) for k in range(r))
        if got.shape != exp.shape:
            v.append(V("SPINN", "output_is_not_a_grid_with_one_slot_per_declared_output", f"{case}: shape {got.shape} expected {exp.shape}"))
        elif not close(got, exp):
            v.append(V("SPINN", "value_differs_from_sum_over_rank_of_products_of_features", f"{ {k: v_ for k, v_ in case.items() if k != 'key'} }"))
        if v:
            break
    return v, 2


def run_hyper(case):
    key = jax.random.PRNGKey(case["key"])
    eq_type, dx, o, hp = case["eq_type"], case["dx"], case["o"], case["hp"]
    n_in = dx + (0 if eq_type == "statio_PDE" else 1)
    eqp = {"a": jnp.asarray(0.7), "b": jnp.asarray([0.2, -1.3]), "c": jnp.asarray(5.0),
           "M": jnp.asarray([[0.3, -0.6], [1.1, 0.4]]), "N": jnp.asarray([[0.9, 0.1, -0.5], [-0.2, 0.8, 0.6]])}
    hsize = sum(int(np.asarray(eqp[k]).size) for k in hp)
    hyper_list = ((eqx.nn.Linear, hsize, 4), (jnp.tanh,), (eqx.nn.Linear, 4, 1000))
    slices = (jnp.s_[0:1], jnp.s_[1:2]) if case["shared"] else None
    if case["shared"] == "int":
        slices = (jnp.s_[0:1], jnp.s_[1])
    if case["shared"] == "int0":
        slices = (jnp.s_[0], jnp.s_[1:2])
    it = (lambda inp, p: inp * p.eq_params["c"]) if case.get("it") == "scale" else None
    ot = (lambda inp, out, p: out + jnp.sum(inp)) if case.get("ot") == "inputs" else None
    us = jinns.utils.create_HYPERPINN(key, eqx_list(n_in, case["hidden"], o, "tanh"), eq_type, hp, hsize, dx, input_transform=it, output_transform=ot,
                                      shared_pinn_outputs=slices, eqx_list_hyper=hyper_list)
    us = us if case["shared"] else [us]
    v = []
    for ui, u in enumerate(us):
        hyper_p = jax.tree_util.tree_map(lambda x: x * 1.1 + 0.01, u.init_params())
        params = Params(nn_params=hyper_p, eq_params=eqp)
        inner_leaves = jax.tree_util.tree_leaves(u.params)
        sizes = [int(np.prod(l.shape)) for l in inner_leaves]
        hin = np.concatenate([np.asarray(eqp[k], dtype=float).reshape(-1) for k in hp])
        hout = np_mlp(hyper_p, hin, "tanh")
        if hout.shape != (sum(sizes),):
            v.append(V("HYPERPINN", "hyper_network_output_size_differs_from_inner_parameter_count", f"{hout.shape} vs {sum(sizes)}"))
            break
        chunks, off = [], 0
        for l, sz in zip(inner_leaves, sizes):
            chunks.append(hout[off:off + sz].reshape(l.shape))
            off += sz
        for j in range(3):
            t, x = inputs_for(eq_type, dx, j)
            if eq_type == "ODE":
                got, inp = u(jnp.asarray(t), params), t
            elif eq_type == "statio_PDE":
                got, inp = u(jnp.asarray(x), params), x
            else:
                got, inp = u(jnp.asarray(t), jnp.asarray(x), params), np.concatenate([t, x])
            h = inp * 5.0 if case.get("it") == "scale" else inp
            nl = len(chunks) // 2
            for k in range(nl):
                h = chunks[2 * k] @ h + chunks[2 * k + 1]
                if k < nl - 1:
                    h = np.tanh(h)
            raw = h.squeeze()
            if case.get("ot") == "inputs":
                raw = raw + np.sum(inp)  # the output transform receives the *original* inputs
            if case["shared"]:
                raw = raw[[slice(0, 1), slice(1, 2)][ui]]
            exp = np.atleast_1d(raw)
            got = np.asarray(got)
            if got.ndim != 1:
                v.append(V("HYPERPINN", "output_has_no_trailing_component_axis", f"{got.shape}"))
            elif not close(got, exp):
                v.append(V("HYPERPINN", "value_differs_from_inner_network_with_hyper_generated_weights", f"{ {k: v_ for k, v_ in case.items() if k != 'key'} }: got {got} expected {exp}"))
            if v:
                break
    return v, 3 * len(us)


def run_case(case):
    v, n = {"pinn": run_pinn, "slice_solution": run_slice_solution, "spinn": run_spinn, "hyper": run_hyper}[case["type"]](case)
    cfg = str({k: v_ for k, v_ in case.items() if k != "key"})
    return dict(viol=v, evals=n, nontrivial=[cfg], outcomes=[cfg[:60]], sample={"case": case})
