"""C05 — initial-condition, normalisation and observation terms match their definitions.

Bounded-exhaustive over loss kind x outputs x weights x sample counts x volumes x
time-batch sizes x observation tables x slices x observed parameters x product mode;
oracle: the three definitions of the statement in NumPy on exact polynomial values."""
from __future__ import annotations

import itertools

import numpy as np
import jax
import jax.numpy as jnp
import jinns

from jmc.core import losslib as L
from jmc.core.refmodels import V

ID = "C05"
LEVEL = "exploration"
X64 = True
RULE = (
    "complete enumeration of: initial condition (kind x d x outputs x weight form x batch rows x product mode); normalisation "
    "(kind x d x sample count {1,2,5} x volume {1,2.5} x time rows {1,2,3} x selected component); observations (kind x d x "
    "outputs x table rows {1,2,4} x obs_slice {all, one} x weight form x observed parameter {none, one key consumed by the "
    "network}).  Non-trivial = expected value > 0 (and, for normalisation, a sample set on which squared deviation of the mean "
    "differs from the mean squared deviation); distinct by configuration."
)
ASSUMPTIONS = [
    "polynomial networks in the real PINN wrapper; oracle from exact polynomial values",
    "the Monte-Carlo integral is taken on the single solution component selected by slice_solution",
    "x64; 1e-10 relative",
]
BOUNDS = {"quick": {"dims": [1, 2]}, "thorough": {"dims": [1, 2, 3]}}


def cases(tier, seed):
    B = BOUNDS[tier]
    out = []
    # initial condition
    for n_out in (1, 2):
        for w in ("scalar",):
            for t0 in (0.0, 0.3):
                out.append(dict(type="ic", kind="ode", d=0, n_out=n_out, weight=w, rows=2, t0=t0))
                # with a parameter batch consumed by the network the initial state is evaluated once per row
                out.append(dict(type="ic", kind="ode", d=0, n_out=n_out, weight=w, rows=3, t0=t0, param_batch=True))
    for d in B["dims"]:
        for n_out in (1, 2):
            for w in ("scalar", "vector"):
                for (nt, nx, cart) in ((1, 1, True), (2, 3, True), (3, 2, True), (2, 2, False), (3, 3, False)):
                    # the prescribed initial state may be returned as a vector of components, or (single output)
                    # as a 0-d array / Python-like scalar per point
                    for icshape in (("vec", "0d", "float") if n_out == 1 else ("vec",)):
                        out.append(dict(type="ic", kind="nonstatio", d=d, n_out=n_out, weight=w, nt=nt, nx=nx, cart=cart, icshape=icshape))
    # normalisation
    for kind in ("statio", "nonstatio"):
        for d in B["dims"]:
            for ns in (1, 2, 5):
                for vol in (1.0, 2.5):
                    for nt in ((1, 2, 3) if kind == "nonstatio" else (1,)):
                        # the statement does not say which outputs of a multi-output network enter the integral: the
                        # stationary branch takes slice_solution, the non-stationary one all outputs; only the
                        # unambiguous single-output case is enumerated for the latter
                        for (n_out, comp) in (((1, 0), (2, 1)) if kind == "statio" else ((1, 0),)):
                            out.append(dict(type="norm", kind=kind, d=d, ns=ns, vol=vol, nt=nt, n_out=n_out, comp=comp))
    # observations
    # networks wider than the solution: slice_solution then obs_slice (incl. negative indices) select the observed components
    for kind in ("ode", "statio", "nonstatio"):
        for (ssl, osl) in itertools.product(("all", "0:2", "1:3"), ("all", "0:1", "-1:", "1:2")):
            if osl == "1:2" and ssl == "all":
                pass
            out.append(dict(type="obs", kind=kind, d=0 if kind == "ode" else 1, n_out=3, rows=2, oslice=osl, sslice=ssl, weight="scalar", obs_param=False))
    for kind in ("ode", "statio", "nonstatio"):
        for d in ([0] if kind == "ode" else B["dims"]):
            for n_out in (1, 2):
                for rows in (1, 2, 4):
                    for oslice in (("all", "one") if n_out == 2 else ("all",)):
                        for w in (("scalar", "vector", "scalar0d") if n_out == 2 and oslice == "all" else ("scalar",)):
                            for obs_param in ((False,) if w == "scalar0d" else (False, True) + (("two",) if rows > 1 and w == "scalar" else ())):
                                # "two": two observed parameter columns at once (row i of each goes with row i of the observation)
                                out.append(dict(type="obs", kind=kind, d=d, n_out=n_out, rows=rows, oslice=oslice, weight=w, obs_param=obs_param))
                            if rows > 1 and oslice == "all" and w == "scalar":
                                # the observed column and a parameter batch on the *same* key: the observed rows win for the observation
                                # term; the other terms (initial condition) keep seeing the parameter batch
                                out.append(dict(type="obs", kind=kind, d=d, n_out=n_out, rows=rows, oslice=oslice, weight=w, obs_param=True, param_same_key=True))
                                if kind == "nonstatio":
                                    # observed column only: the initial-condition term of the same evaluation keeps the caller's value
                                    out.append(dict(type="obs", kind=kind, d=d, n_out=n_out, rows=rows, oslice=oslice, weight=w, obs_param=True, ic_too=True))
    # a hyper-network whose input is made of two equation parameters (declared, and inserted, in non-alphabetical order):
    # the terms measure the mismatch of the very network the user evaluates
    for kind in ("ode", "statio", "nonstatio"):
        for hp in (["nu", "D"], ["D", "nu"]):
            out.append(dict(type="hyper", kind=kind, d=0 if kind == "ode" else 1, n_out=1, rows=3, hp=hp))
    out.sort(key=lambda c: (c["type"], c["d"], c.get("rows", 0)))
    return out


def close(a, b):
    return abs(a - b) <= 1e-10 * (1 + abs(b))


def run_hyper(case):
    import equinox as eqx
    kind, d, rows = case["kind"], case["d"], case["rows"]
    nv = L.nvar_of(kind, d)
    eqp = {"nu": jnp.asarray(0.7), "D": jnp.asarray([0.2, -1.3])}  # non-alphabetical insertion
    u = jinns.utils.create_HYPERPINN(jax.random.PRNGKey(11), ((eqx.nn.Linear, nv, 3), (jnp.tanh,), (eqx.nn.Linear, 3, 1)), L.EQ_TYPE[kind], case["hp"], 3, d,
                                     eqx_list_hyper=((eqx.nn.Linear, 3, 4), (jnp.tanh,), (eqx.nn.Linear, 4, 1000)))
    params = jinns.parameters.Params(nn_params=jax.tree_util.tree_map(lambda x: x * 1.1 + 0.01, u.init_params()), eq_params=eqp)
    pin = L.points(rows, nv, salt=8)
    val = np.linspace(-0.3, 0.9, rows).reshape(rows, 1)
    obs = {"pinn_in": jnp.asarray(pin), "val": jnp.asarray(val), "eq_params": {}}
    site = f"observations/{kind}/hyper_network"
    if kind == "ode":
        loss = L.quiet(jinns.loss.LossODE, u=u, dynamic_loss=None, initial_condition=(0.3, jnp.asarray([0.2])), params=params)
        call = lambda z: u(z[:1], params)
    elif kind == "statio":
        loss = L.quiet(jinns.loss.LossPDEStatio, u=u, dynamic_loss=None, params=params)
        call = lambda z: u(z, params)
    else:
        loss = L.quiet(jinns.loss.LossPDENonStatio, u=u, dynamic_loss=None, initial_condition_fun=lambda x: jnp.sin(x), params=params)
        call = lambda z: u(z[:1], z[1:], params)
    batch = L.make_batch(kind, L.points(rows, nv), obs=obs)
    # reference: the wrapper called directly by the user (its own conventions are decided by C10)
    U = np.stack([np.asarray(call(jnp.asarray(z))) for z in pin])
    exp = {"observations": float(np.mean(np.sum((U - val) ** 2, axis=-1)))}
    if kind == "ode":
        exp["initial_condition"] = float(np.sum((np.asarray(u(jnp.asarray([0.3]), params)) - 0.2) ** 2))
    elif kind == "nonstatio":
        X = np.asarray(batch.times_x_inside_batch)[:, 1:]
        U0 = np.stack([np.asarray(u(jnp.zeros((1,)), jnp.asarray(x), params)) for x in X])
        exp["initial_condition"] = float(np.mean(np.sum((np.sin(X) - U0) ** 2, axis=-1)))
    v = []
    for mode, terms in (("jit", L.jit_eval(loss, params, batch)[1]), ("eager", loss.evaluate(params, batch)[1])):
        for k, e in exp.items():
            if not close(float(terms[k]), e):
                v.append(V(site, "term_is_not_the_mismatch_of_the_network_the_user_evaluates", f"{case} {mode}: {k} = {float(terms[k])} expected {e}"))
    return dict(viol=v, evals=2, nontrivial=[str(case)], outcomes=[f"hyper|{kind}|{case['hp']}|{round(sum(exp.values()), 6)}"], sample={"case": case, "expected": exp})


def run_case(case):
    if case["type"] == "hyper":
        return run_hyper(case)
    kind, d, n_out = case["kind"], case["d"], case["n_out"]
    t = case["type"]
    site = {"ic": "initial_condition", "norm": "norm_loss", "obs": "observations"}[t] + f"/{kind}"
    v = []
    nv = L.nvar_of(kind, d)
    if t == "ic":
        pbatch = case.get("param_batch", False)
        u, coef, expo = L.make_u(kind, d, n_out, deg=2, salt=2, input_transform=(lambda inp, p: inp * jnp.reshape(p.eq_params["a"], ())) if pbatch else None)
        params = jinns.parameters.Params(nn_params=u.init_params(), eq_params={"a": jnp.asarray(0.7)})
        if kind == "ode" and pbatch:
            u0 = np.array([0.4, -0.2][:n_out])
            w = 1.7
            arows = np.array([[0.6], [1.3], [-0.8]])[: case["rows"]]
            loss = L.quiet(jinns.loss.LossODE, u=u, dynamic_loss=None, initial_condition=(case["t0"], jnp.asarray(u0)),
                           loss_weights=jinns.loss.LossWeightsODE(initial_condition=w), params=params)
            batch = L.make_batch(kind, L.points(case["rows"], 1), param={"a": jnp.asarray(arows)})
            per_row = []
            for a_ in arows[:, 0]:
                uv = L.jets(coef, expo, np.array([[case["t0"] * a_]]), [()])[()][:, 0]
                per_row.append(np.sum((uv - u0) ** 2))
            exp = w * float(np.mean(per_row))
        elif kind == "ode":
            u0 = np.array([0.4, -0.2][:n_out])
            w = 1.7
            loss = L.quiet(jinns.loss.LossODE, u=u, dynamic_loss=None, initial_condition=(case["t0"], jnp.asarray(u0)),
                           loss_weights=jinns.loss.LossWeightsODE(initial_condition=w), params=params)
            batch = L.make_batch(kind, L.points(case["rows"], 1))
            uv = L.jets(coef, expo, np.array([[case["t0"]]]), [()])[()][:, 0]
            exp = w * float(np.sum((uv - u0) ** 2))
        else:
            wv = 1.7 if case["weight"] == "scalar" else np.array([1.0, 0.4][:n_out])
            tpts, xpts = L.points(case["nt"], 1, salt=3)[:, 0], L.points(case["nx"], d, salt=5)
            if case["cart"]:
                pts = np.array([[tt, *xx] for tt in tpts for xx in xpts])
            else:
                pts = np.concatenate([tpts[:, None], xpts], axis=1)
            amp = np.array([1.0, -0.5][:n_out])
            if case.get("icshape", "vec") == "float":
                ic = lambda x: 0.75
            elif case.get("icshape", "vec") == "0d":
                ic = lambda x: amp[0] * jnp.sin(x[0]) + 0.1 * jnp.sum(x)
            else:
                ic = lambda x: jnp.asarray(amp) * jnp.sin(x[0]) + 0.1 * jnp.sum(x)
            loss = L.quiet(jinns.loss.LossPDENonStatio, u=u, dynamic_loss=None, initial_condition_fun=ic,
                           loss_weights=jinns.loss.LossWeightsPDENonStatio(initial_condition=jnp.asarray(wv) if case["weight"] == "vector" else wv), params=params)
            batch = L.make_batch(kind, pts)
            X = pts[:, 1:]
            U0 = L.jets(coef, expo, np.concatenate([np.zeros((len(X), 1)), X], axis=1), [()])[()].T  # (rows, n_out)
            target = amp[None, :] * np.sin(X[:, :1]) + 0.1 * np.sum(X, axis=1, keepdims=True)
            if case.get("icshape", "vec") == "float":
                target = np.full((len(X), 1), 0.75)
            exp = float(np.mean(np.sum(np.asarray(wv) * (target - U0) ** 2, axis=-1)))
        got = float(L.jit_eval(loss, params, batch)[1]["initial_condition"])
        if not close(got, exp):
            v.append(V(site, "initial_condition_term_differs_from_definition", f"{case}: got {got} expected {exp}"))
        nontriv = exp > 0
    elif t == "norm":
        comp = case["comp"]
        u, coef, expo = L.make_u(kind, d, n_out, deg=2, salt=3, slice_solution=jnp.s_[comp:comp + 1])
        params = jinns.parameters.Params(nn_params=u.init_params(), eq_params={"a": jnp.asarray(0.7)})
        S = L.points(case["ns"], d, salt=6)
        w, vol = 0.8, case["vol"]
        if kind == "statio":
            loss = L.quiet(jinns.loss.LossPDEStatio, u=u, dynamic_loss=None, norm_samples=jnp.asarray(S), norm_int_length=vol,
                           loss_weights=jinns.loss.LossWeightsPDEStatio(norm_loss=w), params=params)
            batch = L.make_batch(kind, L.points(2, d))
            U = L.jets(coef, expo, S, [()])[()][comp]
            exp = w * (vol * float(np.mean(U)) - 1.0) ** 2
            alt = w * float(np.mean((vol * U - 1.0) ** 2))
        else:
            tpts = L.points(case["nt"], 1, salt=3)[:, 0]
            pts = np.concatenate([tpts[:, None], L.points(case["nt"], d, salt=5)], axis=1)
            loss = L.quiet(jinns.loss.LossPDENonStatio, u=u, dynamic_loss=None, norm_samples=jnp.asarray(S), norm_int_length=vol,
                           loss_weights=jinns.loss.LossWeightsPDENonStatio(norm_loss=w), params=params)
            batch = L.make_batch(kind, pts)
            devs = []
            for tt in tpts:
                U = L.jets(coef, expo, np.concatenate([np.full((len(S), 1), tt), S], axis=1), [()])[()][comp]
                devs.append((vol * float(np.mean(U)) - 1.0) ** 2)
            exp = w * float(np.mean(devs))
            alt = None
        got = float(L.jit_eval(loss, params, batch)[1]["norm_loss"])
        if not close(got, exp):
            hint = " (= mean over samples of squared pointwise deviations)" if alt is not None and close(got, alt) else ""
            v.append(V(site, "normalisation_term_differs_from_definition", f"{case}: got {got} expected {exp}{hint}"))
        nontriv = exp > 0 and (case["ns"] >= 2)
    else:
        obs_param = case["obs_param"]
        it = (lambda inp, p: inp * p.eq_params["k"] + 0.1 * (p.eq_params["a"] - 0.7)) if obs_param else None
        SL = {"all": slice(None), "0:2": slice(0, 2), "1:3": slice(1, 3), "0:1": slice(0, 1), "-1:": slice(-1, None), "1:2": slice(1, 2), "one": slice(1, 2)}
        ssl = case.get("sslice", "all")
        kw_u = {} if ssl == "all" else {"slice_solution": SL[ssl]}
        u, coef, expo = L.make_u(kind, d, n_out, deg=2, salt=4, input_transform=it, **kw_u)
        params = jinns.parameters.Params(nn_params=u.init_params(), eq_params={"k": jnp.asarray(1.0), "a": jnp.asarray(0.7)})  # non-alphabetical insertion
        rows = case["rows"]
        pin = L.points(rows, nv, salt=8)
        osl = jnp.s_[...] if case["oslice"] == "all" else SL[case["oslice"]]
        sel = list(range(n_out))[SL[ssl]]
        sel = sel if case["oslice"] == "all" else sel[SL[case["oslice"]]]
        ncol = len(sel)
        val = np.linspace(-0.3, 0.9, rows * ncol).reshape(rows, ncol)
        wv = 0.5 if case["weight"] in ("scalar", "scalar0d") else np.array([1.0, 0.3])
        kcol = np.array([0.6 + 0.35 * i for i in range(rows)])
        acol = np.array([0.7 + (1.1 - 0.5 * i if obs_param == "two" else 0.0) for i in range(rows)])
        obs = {"pinn_in": jnp.asarray(pin), "val": jnp.asarray(val), "eq_params": ({"k": jnp.asarray(kcol[:, None])} if obs_param else {})}
        if obs_param == "two":
            obs["eq_params"]["a"] = jnp.asarray(acol[:, None])
        wj = jnp.asarray(wv) if case["weight"] in ("vector", "scalar0d") else wv
        if kind == "ode":
            loss = L.quiet(jinns.loss.LossODE, u=u, dynamic_loss=None, initial_condition=None, obs_slice=osl, loss_weights=jinns.loss.LossWeightsODE(observations=wj), params=params)
        elif kind == "statio":
            loss = L.quiet(jinns.loss.LossPDEStatio, u=u, dynamic_loss=None, obs_slice=osl, loss_weights=jinns.loss.LossWeightsPDEStatio(observations=wj), params=params)
        else:
            loss = L.quiet(jinns.loss.LossPDENonStatio, u=u, dynamic_loss=None, obs_slice=osl, loss_weights=jinns.loss.LossWeightsPDENonStatio(observations=wj), params=params)
        same = case.get("param_same_key", False)
        prow = np.array([[1.9 - 0.45 * i] for i in range(rows)])
        ic_kw = {}
        ic_too = case.get("ic_too", False)
        if (same or ic_too) and kind == "nonstatio":
            ic_kw = dict(initial_condition_fun=lambda x: jnp.sin(x[0]) * jnp.ones((n_out,)))
            loss = L.quiet(jinns.loss.LossPDENonStatio, u=u, dynamic_loss=None, obs_slice=osl,
                           loss_weights=jinns.loss.LossWeightsPDENonStatio(observations=wj, initial_condition=1.0), params=params, **ic_kw)
        batch = L.make_batch(kind, L.points(rows, nv), obs=obs, param={"k": jnp.asarray(prow)} if same else None)
        zin = pin * (kcol[:, None] if obs_param else 1.0) + (0.1 * (acol[:, None] - 0.7) if obs_param else 0.0)
        U = L.jets(coef, expo, zin, [()])[()].T  # (rows, n_out)
        U = U[:, sel]
        exp = float(np.mean(np.sum(np.asarray(wv) * (U - val) ** 2, axis=-1)))
        terms_ = L.jit_eval(loss, params, batch)[1]
        got = float(terms_["observations"])
        if (same or ic_too) and kind == "nonstatio":
            # initial-condition term: row i sees row i of the *parameter batch* if there is one, else the caller's value
            # (never the observed column)
            X0 = np.asarray(batch.times_x_inside_batch)[:, 1:]
            z0 = np.concatenate([np.zeros((rows, 1)), X0], axis=1) * (prow if same else 1.0)
            U0 = np.stack([L.jets(coef, expo, z0[i:i + 1], [()])[()][:, 0] for i in range(rows)])
            exp_ic = float(np.mean(np.sum((np.sin(X0[:, :1]) - U0) ** 2, axis=-1)))
            got_ic = float(terms_["initial_condition"])
            if not close(got_ic, exp_ic):
                v.append(V("initial_condition/nonstatio", "initial_condition_term_sees_the_observed_column_instead_of_the_parameter_batch", f"{case}: got {got_ic} expected {exp_ic}"))
        if not close(got, exp):
            v.append(V(site, "observation_term_differs_from_definition" + ("(observed_parameter_rows)" if obs_param else ""), f"{case}: got {got} expected {exp}"))
        elif obs_param:
            got_e = float(loss.evaluate(params, batch)[1]["observations"])  # eager: the insertion order of the caller's dictionaries is visible
            if not close(got_e, exp):
                v.append(V(site, "observation_term_differs_from_definition(observed_parameter_rows,eager)", f"{case}: got {got_e} expected {exp}"))
        nontriv = exp > 0
    return dict(viol=v, evals=1, nontrivial=[str(case)] if nontriv else [], outcomes=[f"{t}|{kind}|{round(exp, 6)}"], sample={"case": case, "expected": exp, "got": got})
