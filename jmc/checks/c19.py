"""C19 — validation is called on schedule; early stopping and best parameters follow it.

(a) 'protocol': every validation script (improved?, stop?)^L through the real jinns.solve
    with a harness-side scripted validation module whose criterion is a fingerprint of
    the parameters it receives;
(b) 'bfs': breadth-first exploration of the real ValidationLoss.__call__ over validation
    loss values {1,2,3} against a patience reference model;
(c) 'builtin': the built-in ValidationLoss inside solve, its loss value scripted through
    a clock parameter and depending on its own batches (data / parameter / observation
    generators), against a plain-Python reference validation module."""
from __future__ import annotations

import itertools
import warnings

import numpy as np
import jax
import jax.numpy as jnp
import equinox as eqx
import optax
import jinns
import jinns.validation  # noqa: F401  (not imported by `import jinns`)
from jinns.validation._validation import AbstractValidationModule, ValidationLoss

from jmc.core import trainlib as tl
from jmc.core.explorer import explore
from jmc.core.refmodels import V
from jmc.checks.c18 import clock_tick

ID = "C19"
LEVEL = "model_checking"
X64 = True
RULE = (
    "(a) complete enumeration of validation scripts over {(improved?, stop?)} for the first L invocations (suffix after a stop "
    "canonicalised) x period {1,2,3} x n_iter {1,4,7}; (b) every sequence of validation-loss values in {1,2,3}^depth x patience "
    "{0..3} x early stopping {on, off} executed on the real ValidationLoss (no pruning); (c) scripted loss values through the "
    "built-in module inside solve x patience x period x generator sets.  Non-trivial = at least one invocation with a non-default "
    "answer (improved or stop) / a non-monotone value sequence; distinct by script/sequence + configuration."
)
ASSUMPTIONS = [
    "the scripted module's criterion is a fingerprint of the parameters it was given, so 'called with the post-update parameters' is observed through validation_crit_values",
    "solve does not return the validation module: its state is observed through criterion values, best parameters and the stop iteration",
    "x64; 1e-10 relative tolerance",
]
BOUNDS = {
    "quick": {"L": 3, "periods": [1, 2, 3], "n_iters": [1, 4, 7], "bfs_depth": 5, "builtin_len": 5},
    "thorough": {"L": 5, "periods": [1, 2, 3, 4], "n_iters": [1, 4, 7, 10], "bfs_depth": 7, "builtin_len": 6},
}


def scripts(L):
    """all scripts of length <= L over (improved, stop), nothing enumerated after the first stop"""
    out = []

    def rec(prefix):
        if len(prefix) == L:
            out.append(prefix)
            return
        for imp in (0, 1):
            rec(prefix + [(imp, 0)])
        for imp in (0, 1):
            out.append(prefix + [(imp, 1)])

    rec([])
    return out


def cases(tier, seed):
    B = BOUNDS[tier]
    out = []
    for n_iter in B["n_iters"]:
        for ce in B["periods"]:
            C = -(-n_iter // ce)
            for sc in scripts(min(C, B["L"])):
                out.append(dict(type="protocol", n_iter=n_iter, call_every=ce, script=sc, key=seed + 9))
    # the same protocol when an update produces NaN parameters at iteration k: an invocation scheduled at k receives the
    # post-update (NaN) parameters like any other, then training stops
    for n_iter in B["n_iters"]:
        for ce in B["periods"]:
            C = -(-n_iter // ce)
            for nan_k in range(n_iter):
                for imp in (0, 1):
                    out.append(dict(type="protocol", n_iter=n_iter, call_every=ce, script=[(imp, 0)] * C, key=seed + 9, nan_k=nan_k))
    for patience in (0, 1, 2, 3):
        for es in (True, False):
            for first in (1, 2, 3):
                out.append(dict(type="bfs", patience=patience, early_stopping=es, first=first, depth=B["bfs_depth"], key=seed + 9))
            # with non-finite validation losses in the alphabet (NaN is never a strict new minimum)
            for first in (2, "nan"):
                out.append(dict(type="bfs", patience=patience, early_stopping=es, first=first, depth=B["bfs_depth"] - 1, key=seed + 9, alphabet=[1, 2, "nan"]))
    vals = (1.0, 2.0, 3.0)
    Lb = B["builtin_len"]
    seqs = list(itertools.product(vals, repeat=Lb))
    for gi, gens_ in enumerate(("data", "data+param", "data+obs", "data+param+obs")):
        for patience in (0, 1, 2):
            for ce in (1, 2):
                for si, seq in enumerate(seqs):
                    # quick: every 4th sequence for (data only, patience 1, period 1) and a covering stride elsewhere;
                    # thorough: every sequence for the data-only module, every 9th for the modules with auxiliary generators
                    if tier == "quick" and not (gi == 0 and patience == 1 and ce == 1) and (si + gi + patience + ce) % 41:
                        continue
                    if tier == "quick" and gi == 0 and patience == 1 and ce == 1 and si % 4:
                        continue
                    if tier == "thorough" and gi > 0 and (si + gi + patience + ce) % 9:
                        continue
                    out.append(dict(type="builtin", gens=gens_, patience=patience, call_every=ce, seq=list(seq), n_iter=Lb * ce, key=seed + 9))
    out.sort(key=lambda c: (c["type"] != "bfs", c["type"] != "protocol", c.get("n_iter", 0), len(c.get("script", []))))
    return out


def fingerprint(params):
    return params.eq_params["a"] + 10.0 * jnp.sum(jax.tree_util.tree_leaves(params.nn_params)[0])


class ScriptedValidation(AbstractValidationModule):
    call_every: int = eqx.field(kw_only=True, static=True)
    improved: jax.Array = eqx.field(kw_only=True)
    stop: jax.Array = eqx.field(kw_only=True)
    calls: jax.Array = eqx.field(kw_only=True)

    def __call__(self, params):
        j = jnp.minimum(self.calls, self.improved.shape[0] - 1)
        within = self.calls < self.improved.shape[0]
        imp = jnp.logical_and(within, self.improved[j] > 0)
        stp = jnp.logical_and(within, self.stop[j] > 0)
        new = eqx.tree_at(lambda m: m.calls, self, self.calls + 1)
        return new, stp, fingerprint(params), imp


def run_protocol(case):
    with warnings.catch_warnings():
        warnings.simplefilter("ignore")
        P = tl.make_problem(dict(kind="ode", n=5, b=2, key=case["key"], aux="none"))
    tx = tl.make_optimizer("adam")
    if case.get("nan_k") is not None:
        from jmc.checks.c18 import nan_at
        tx = optax.chain(tx, nan_at(case["nan_k"], lambda p: jax.tree_util.tree_leaves(p.nn_params)[0]))
    sc = case["script"] or [(0, 0)]
    val = ScriptedValidation(call_every=case["call_every"], improved=jnp.asarray([s[0] for s in sc]), stop=jnp.asarray([s[1] for s in sc]),
                             calls=jnp.asarray(0))
    n_iter = case["n_iter"]
    ref = tl.reference_loop(n_iter, P["params"], P["data"], P["loss"], tx, None, None, validation=val)
    with warnings.catch_warnings():
        warnings.simplefilter("ignore")
        out = jinns.solve(n_iter=n_iter, init_params=P["params"], data=P["data"], loss=P["loss"], optimizer=tx, validation=val, verbose=False)
    return compare("solve/validation_protocol" + ("/nan_update" if case.get("nan_k") is not None else ""), out, ref, n_iter,
                   f"period {case['call_every']} script {sc}" + (f" NaN update at iteration {case['nan_k']}" if case.get("nan_k") is not None else ""))


def compare(site, out, ref, n_iter, ctx):
    v = []
    done = ref["n_done"]
    tot = np.asarray(out[1])
    crit = np.asarray(out[7]) if out[7] is not None else None
    if crit is None:
        return [V(site, "no_validation_criterion_returned", ctx)]
    ok, msg = tl.leaves_close(crit[:done], ref["val_crit"][:done], nan_ok=True)
    if not ok:
        v.append(V(site, "criterion_history_differs(schedule_or_arguments_or_carry_forward)",
                   f"{ctx}: got {crit.tolist()} expected {ref['val_crit'].tolist()} (invocations expected at {ref['val_calls']})"))
    # stop iteration: entries after the stop untouched
    stopped_impl = int(np.max(np.nonzero(tot)[0]) + 1) if np.any(tot != 0) else 0
    if stopped_impl != done or not np.all(crit[done:] == 0.0):
        v.append(V(site, "stop_iteration_differs", f"{ctx}: ran {stopped_impl} iteration(s), expected {done} (stopped: {ref['stopped']})"))
    ok, msg = tl.leaves_close(out[8], ref["best"], nan_ok=True)
    if not ok:
        v.append(V(site, "best_params_are_not_those_of_the_last_improving_invocation", f"{ctx}: {msg}"))
    ok, msg = tl.leaves_close(out[0], ref["params"])
    if not ok:
        v.append(V(site, "final_params_differ", f"{ctx}: {msg}"))
    ok, msg = tl.leaves_close(tot[:done], ref["totals"][:done])
    if not ok:
        v.append(V(site, "train_loss_history_differs", f"{ctx}: {msg}"))
    return v


# ------------------------------------------------------------------ (b) BFS on the built-in module
class ConstLoss(eqx.Module):
    """validation 'loss' whose value is handed in through the parameters"""

    def __call__(self, params, batch):
        return params.eq_params["v"], {}


def run_bfs(case):
    gen = jinns.data.DataGeneratorODE(jax.random.PRNGKey(case["key"]), 4, 0.0, 1.0, 2)
    v0 = ValidationLoss(loss=ConstLoss(), validation_data=gen, call_every=1, early_stopping=case["early_stopping"], patience=case["patience"])
    call = eqx.filter_jit(lambda m, p: m(p))
    site = "ValidationLoss"
    patience, es = case["patience"], case["early_stopping"]

    def P(val):
        return jinns.parameters.Params(nn_params=None, eq_params={"v": jnp.asarray(float(val))})

    alphabet = case.get("alphabet", [1, 2, 3])

    def step(state, op, hist):
        m, best, nonimp, draws, stopped = state
        eager = len(hist) < 2
        new, stop, crit, improved = (m(P(op)) if eager else call(m, P(op)))
        opv = float(op)
        exp_imp = opv < best  # False for NaN
        exp_stop = es and (nonimp == patience)
        v = []
        if bool(improved) != exp_imp:
            v.append(V(site, "improvement_flag_is_not_strict_new_minimum", f"values {hist + [op]}: flag {bool(improved)}, running minimum before {best}"))
        # the statement fixes the *first* stop request; later requests of a module that keeps being invoked are unspecified
        if not stopped and bool(stop) != exp_stop:
            v.append(V(site, "stop_request_differs_from_patience_rule",
                       f"values {hist + [op]} patience {patience} early_stopping {es}: stop={bool(stop)} but {nonimp} consecutive non-improving invocation(s) precede"))
        if not (float(crit) == opv or (np.isnan(float(crit)) and np.isnan(opv))):
            v.append(V(site, "criterion_is_not_the_validation_loss", f"{float(crit)} vs {op}"))
        # its own generator advanced by exactly one draw
        g_ref = m.validation_data.get_batch()[0]
        if not tl.gen_equal(new.validation_data, g_ref):
            v.append(V(site, "validation_generator_not_advanced_by_one_draw", ""))
        nb = opv if exp_imp else best
        return (new, nb, 0 if exp_imp else nonimp + 1, draws + 1, stopped or exp_stop), v

    def canon(state):
        m, best, nonimp, draws, _ = state
        return (float(m.counter), repr(float(m.best_val_loss)), draws)

    init = (v0, float("inf"), 0, 0, False)
    s1, viol1 = step(init, case["first"], [])
    if viol1:
        return dict(viol=[dict(x, history=[case["first"]]) for x in viol1], evals=1, states=1, transitions=1)
    st = explore(s1, lambda s, h: alphabet, lambda s, op, h: step(s, op, [case["first"]] + h), canon, case["depth"] - 1,
                 outcome=lambda s: str(canon(s)[:2]))
    res = st.as_result({"nontrivial": [f"bfs|{patience}|{es}|{case['first']}"],
                        "sample": {"type": "bfs", "patience": patience, "early_stopping": es, "values": [case["first"]] + (st.sample_trace or [])}})
    res["transitions"] += 1
    return res


# ------------------------------------------------------------------ (c) built-in module inside solve
class ScriptLoss(eqx.Module):
    """validation loss = script[clock] + small terms depending on the validation batches"""

    script: jax.Array

    def __call__(self, params, batch):
        j = jnp.clip(params.eq_params["clock"].astype(int), 0, self.script.shape[0] - 1)
        val = self.script[j] + 1e-3 * jnp.mean(batch.temporal_batch)
        if batch.param_batch_dict is not None:
            val = val + 1e-3 * jnp.mean(batch.param_batch_dict["a"])
        if batch.obs_batch_dict is not None:
            val = val + 1e-3 * jnp.mean(batch.obs_batch_dict["val"]) + 1e-4 * jnp.mean(batch.obs_batch_dict["pinn_in"])
        return val, {}


class RefValidation:
    """plain-Python statement of the built-in validation module's contract"""

    def __init__(self, loss, data, param_data, obs_data, call_every, patience, early_stopping, best=float("inf"), nonimp=0):
        self.loss, self.data, self.param_data, self.obs_data = loss, data, param_data, obs_data
        self.call_every, self.patience, self.early_stopping = call_every, patience, early_stopping
        self.best, self.nonimp = best, nonimp

    def __call__(self, params):
        batch, data, pdat, odat = tl.draw(self.data, self.param_data, self.obs_data)
        val = float(self.loss(params, batch)[0])
        improved = val < self.best
        stop = self.early_stopping and self.nonimp == self.patience
        new = RefValidation(self.loss, data, pdat, odat, self.call_every, self.patience, self.early_stopping,
                            min(self.best, val), 0 if improved else self.nonimp + 1)
        return new, stop, val, improved


def run_builtin(case):
    with warnings.catch_warnings():
        warnings.simplefilter("ignore")
        P = tl.make_problem(dict(kind="ode", n=5, b=2, key=case["key"], aux="none", clock=True, nan_from=1e9))
    tx = optax.chain(tl.make_optimizer("sgd"), clock_tick())
    ce, n_iter = case["call_every"], case["n_iter"]
    # invocation j happens at iteration j*ce with clock = j*ce + 1
    script = np.zeros(n_iter + 2)
    for j, val in enumerate(case["seq"]):
        if j * ce + 1 < len(script):
            script[j * ce + 1] = val
    k1, k2, k3 = jax.random.split(jax.random.PRNGKey(case["key"] + 1), 3)
    vdata = jinns.data.DataGeneratorODE(k1, 5, 0.0, 1.0, 2)
    vparam = jinns.data.DataGeneratorParameter(k2, 5, 2, {"a": (0.5, 1.5)}) if "param" in case["gens"] else None
    r = np.arange(5.0)
    vobs = jinns.data.DataGeneratorObservations(k3, 2, jnp.asarray(r[:, None] / 5), jnp.asarray(np.cos(r)[:, None])) if "obs" in case["gens"] else None
    sl = ScriptLoss(jnp.asarray(script))
    val = ValidationLoss(loss=sl, validation_data=vdata, validation_param_data=vparam, validation_obs_data=vobs, call_every=ce,
                         early_stopping=True, patience=case["patience"])
    refval = RefValidation(sl, vdata, vparam, vobs, ce, case["patience"], True)
    ref = tl.reference_loop(n_iter, P["params"], P["data"], P["loss"], tx, None, None, validation=refval)
    with warnings.catch_warnings():
        warnings.simplefilter("ignore")
        out = jinns.solve(n_iter=n_iter, init_params=P["params"], data=P["data"], loss=P["loss"], optimizer=tx, validation=val, verbose=False)
    return compare(f"solve/ValidationLoss[{case['gens']}]", out, ref, n_iter, f"period {ce} patience {case['patience']} values {case['seq']}")


def run_case(case):
    t = case["type"]
    if t == "bfs":
        return run_bfs(case)
    v = run_protocol(case) if t == "protocol" else run_builtin(case)
    if t == "protocol":
        nontriv = [f"p|{case['n_iter']}|{case['call_every']}|{case['script']}"] if any(a or b for a, b in case["script"]) else []
    else:
        seq = case["seq"]
        nontriv = [f"b|{case['gens']}|{case['patience']}|{case['call_every']}|{seq}"] if sorted(seq) != seq and sorted(seq, reverse=True) != seq else []
    return dict(viol=v, evals=1, states=case["n_iter"] + 1, transitions=case["n_iter"], traces=1, nontrivial=nontriv,
                outcomes=[f"{t}|{len(v)}|{case.get('script', case.get('seq'))}"[:80]], sample={k: v_ for k, v_ in case.items() if k != "key"})
