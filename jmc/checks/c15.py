"""C15 — observation and parameter loaders keep rows aligned with the user's tables.

Machine: state = real loader; op = get_batch.  Tables are built so that row k is
recognisable in every column; the row-identity invariant is evaluated on every
batch of every history (3 epochs)."""
from __future__ import annotations

import itertools
import math

import numpy as np
import jax
import jax.numpy as jnp
import jinns

from jmc.core import gens
from jmc.core.explorer import explore
from jmc.core.refmodels import V, EpochModel

ID = "C15"
LEVEL = "model_checking"
X64 = False
RULE = (
    "complete enumeration of table size n<=6 x every b<=n x input width {1 (flat and 2-D), 2, 3} x outputs {1,2} x 0..2 observed "
    "parameters x keys for the observation loader; key layout {range, table (n,), table (n,1), both} x method x (n,b) for the "
    "parameter loader; every subset of 3 networks with/without observations for the multi-network loader; get_batch histories "
    "over 3 epochs.  Non-trivial = n>=2 (rows distinguishable); distinct by configuration."
)
ASSUMPTIONS = [
    "tables encode the row index in every column, so alignment is decided exactly",
    "an empty entry for a network without observations may be None or {}",
    "3 PRNG keys (one derived from VERIF_SEED)",
]
BOUNDS = {"quick": {"n_max": 5, "keys": 2}, "thorough": {"n_max": 8, "keys": 3}}


def table(n, d_in, n_out, n_eq, flat):
    r = np.arange(n, dtype=float)
    if d_in == 1:
        pin = r if flat else r[:, None]
    else:
        pin = np.stack([r] + [10.0 * (j + 1) * r + j + 1 for j in range(d_in - 1)], axis=1)
    if n_out == 1:
        val = (100.0 + r) if flat else (100.0 + r)[:, None]
    else:
        val = np.stack([100.0 * (m + 1) + r for m in range(n_out)], axis=1)
    eq = {f"e{j}": ((1000.0 * (j + 1) + r) if (flat and j == 0) else (1000.0 * (j + 1) + r)[:, None]) for j in reversed(range(n_eq))}
    return jnp.asarray(pin), jnp.asarray(val), {k: jnp.asarray(v) for k, v in eq.items()}


def cases(tier, seed):
    B = BOUNDS[tier]
    keys = [seed + 51, 9, 777][: B["keys"]]
    out = []
    for n in range(1, B["n_max"] + 1):
        for b in range(1, n + 1):
            for ki, key in enumerate(keys):
                for (d_in, flat) in ((1, True), (1, False), (2, False), (3, False)):
                    for n_out in (1, 2):
                        for n_eq in (0, 1, 2):
                            if tier == "quick" and (d_in + n_out + n_eq + n + b + ki) % 2:
                                continue
                            out.append(dict(type="obs", n=n, b=b, d_in=d_in, flat=flat, n_out=n_out, n_eq=n_eq, key=key))
                            if ki == 0 and n_eq == 0 and not flat and (n + b) % 2 == 0:
                                # documented option: keep the tables on a given device (here the only CPU device)
                                out.append(dict(type="obs", n=n, b=b, d_in=d_in, flat=flat, n_out=n_out, n_eq=n_eq, key=key, sharding=True))
                for layout in ("range", "table1d", "table2d", "both1d", "both2d", "mixed"):
                    for method in ("uniform", "grid"):
                        out.append(dict(type="param", n=n, b=b, layout=layout, method=method, key=key))
                        if layout in ("range", "mixed"):
                            out.append(dict(type="param", n=n, b=b, layout=layout, method=method, key=key, keydict=True))
    for n, b in ((3, 1), (4, 2), (5, 2)) if tier == "quick" else ((2, 1), (3, 1), (4, 2), (5, 2), (6, 3), (6, 4)):
        for subset in itertools.product((False, True), repeat=3):
            if not any(subset):
                continue
            for n_eq in (0, 1):
                for ki, key in enumerate(keys[:2]):
                    # the three user dictionaries have the same keys but may have been filled in different orders
                    for order in ((0, 0, 0), (1, 2, 0)) if ki == 0 else ((2, 1, 1),):
                        out.append(dict(type="multi", n=n, b=b, has=list(subset), n_eq=n_eq, key=key, order=list(order)))
    out.sort(key=lambda c: (c["type"] != "obs", c["n"]))
    return out


def check_obs_batch(site, bd, n, b, d_in, n_out, n_eq):
    v = []
    try:
        pin, val, eq = np.asarray(bd["pinn_in"]), np.asarray(bd["val"]), {k: np.asarray(a) for k, a in bd["eq_params"].items()}
    except Exception as e:  # pylint: disable=broad-except
        return [V(site, "batch_layout", repr(e))], []
    if pin.shape != (b, d_in) or val.shape != (b, n_out) or any(a.shape != (b, 1) for a in eq.values()) or set(eq) != {f"e{j}" for j in range(n_eq)}:
        return [V(site, "batch_shapes", f"pinn_in {pin.shape} val {val.shape} eq {[(k, a.shape) for k, a in eq.items()]} expected b={b} d_in={d_in} n_out={n_out} n_eq={n_eq}")], []
    ks = []
    for i in range(b):
        k = pin[i, 0]
        ok = float(k).is_integer() and 0 <= k < n
        for j in range(1, d_in):
            ok &= pin[i, j] == 10.0 * j * k + j
        for m in range(n_out):
            ok &= val[i, m] == 100.0 * (m + 1) + k
        for j in range(n_eq):
            ok &= eq[f"e{j}"][i, 0] == 1000.0 * (j + 1) + k
        if not ok:
            v.append(V(site, "batch_row_mixes_different_table_rows",
                       f"row {i}: pinn_in={pin[i].tolist()} val={val[i].tolist()} eq={ {kk: a[i].tolist() for kk, a in eq.items()} }"))
            break
        ks.append(int(k))
    if not v and len(set(ks)) != b:
        v.append(V(site, "same_table_row_twice_in_a_batch", f"{ks}"))
    return v, ks


def run_case(case):
    t = case["type"]
    key = jax.random.PRNGKey(case["key"])
    n, b = case["n"], case["b"]
    depth = 3 * math.ceil(n / b) + 2
    nontriv = [str({k: v for k, v in case.items() if k != "key"})] if n >= 2 else []
    if t == "obs":
        pin, val, eq = table(n, case["d_in"], case["n_out"], case["n_eq"], case["flat"])
        if case.get("sharding"):
            g0 = jinns.data.DataGeneratorObservations(key, b, pin, val, eq, sharding_device=jax.sharding.SingleDeviceSharding(jax.devices()[0]))
        else:
            g0 = jinns.data.DataGeneratorObservations(key, b, pin, val, eq)
        site = "DataGeneratorObservations"

        def step(state, op, hist):
            g, m = state
            g2, bd = g.get_batch()
            v, ks = check_obs_batch(site, bd, n, b, case["d_in"], case["n_out"], case["n_eq"])
            if not v:
                m, v2 = m.observe(np.asarray(g2.indices)[:, None], int(g2.curr_idx), np.asarray(ks, dtype=float)[:, None])
                v += v2
            return (g2, m), v

        m0 = EpochModel(site + "/rows", n, b, np.arange(n, dtype=float)[:, None])
        st = explore((g0, m0), lambda s, h: ["G"], step, lambda s: s[1].canon(int(s[0].curr_idx)), depth,
                     outcome=lambda s: str(s[1].canon(int(s[0].curr_idx))))
        return st.as_result({"nontrivial": nontriv, "sample": {"case": case, "ops": st.sample_trace}})

    if t == "param":
        layout, method = case["layout"], case["method"]
        tab = np.array([50.0 + 3 * j for j in range(n)])  # outside every range below
        tab2 = np.array([-70.0 - j for j in range(n)])
        ranges, user = {}, {}
        if layout == "range":
            ranges = {"nu": (0.5, 2.0), "mu": (-1.0, -0.5)}
        elif layout in ("table1d", "table2d"):
            user = {"nu": tab, "mu": tab2}
        elif layout in ("both1d", "both2d"):
            ranges = {"nu": (0.5, 2.0)}
            user = {"nu": tab}
        else:  # mixed: one key from a range, one from a table, one from both
            ranges = {"nu": (0.5, 2.0), "mu": (-1.0, -0.5)}
            user = {"mu": tab2, "xi": tab}
        if layout.endswith("2d"):
            user = {k: a[:, None] for k, a in user.items()}
        user = {k: jnp.asarray(a) for k, a in user.items()}
        site = f"DataGeneratorParameter/{layout}"
        # both documented table shapes are valid input: a constructor error is a violation (runner rule)
        allk = sorted(set(ranges) | set(user))
        keyarg = key
        if case.get("keydict"):
            # one PRNG key per parameter name (documented alternative), written in non-alphabetical order
            keyarg = {nm: jax.random.fold_in(key, i) for i, nm in enumerate(allk[::-1])}
        g0 = jinns.data.DataGeneratorParameter(keyarg, n, b, ranges, method, user)

        def chk(vals, k, what):
            vals = np.asarray(vals)
            if vals.ndim != 2 or vals.shape[1] != 1:
                return [V(site, f"{what}_shape", f"key {k}: {vals.shape}")]
            if k in user:
                src = sorted(np.asarray(user[k]).ravel().tolist())
                got = sorted(vals.ravel().tolist())
                if what == "store" and got != src:
                    return [V(site, "store_is_not_the_user_table", f"key {k} (table has priority over the range): {got[:4]}")]
                if what == "batch" and (not set(got) <= set(src) or len(set(got)) != len(got)):
                    return [V(site, "batch_not_from_the_keys_own_table", f"key {k}: {got}")]
            else:
                lo, hi = ranges[k]
                if not (np.all(vals >= np.float32(lo)) and np.all(vals <= np.float32(hi))):
                    return [V(site, f"{what}_outside_the_keys_own_range", f"key {k} range {ranges[k]}: {vals.ravel().tolist()[:4]}")]
            return []

        def inv(g, bd):
            v = []
            if sorted(g.param_n_samples) != allk:
                return [V(site, "keys", f"{sorted(g.param_n_samples)} expected {allk}")]
            for k in allk:
                st_ = np.asarray(g.param_n_samples[k])
                if st_.shape != (n, 1):
                    v.append(V(site, "store_shape", f"key {k}: {st_.shape}"))
                v += chk(st_, k, "store")
            if bd is not None:
                if sorted(bd) != allk:
                    return v + [V(site, "batch_keys", f"{sorted(bd)}")]
                for k in allk:
                    a = np.asarray(bd[k])
                    if a.shape != (b, 1):
                        v.append(V(site, "batch_shape", f"key {k}: {a.shape} expected ({b},1)"))
                    v += chk(a, k, "batch")
            return v

        v0 = inv(g0, None)
        if v0:
            return dict(viol=v0, evals=1, states=1, nontrivial=nontriv)

        def step(g, op, hist):
            g2, bd = g.get_batch()
            return g2, inv(g2, bd)

        canon = lambda g: tuple(int(g.curr_param_idx[k]) for k in allk)
        st = explore(g0, lambda s, h: ["G"], step, canon, depth, outcome=lambda g: str(canon(g)))
        return st.as_result({"nontrivial": nontriv, "sample": {"case": case, "ops": st.sample_trace}})

    # multi-network loader
    names = ["u", "v", "w"]
    pins, vals, eqs = {}, {}, {}
    for i, nm in enumerate(names):
        if case["has"][i]:
            p, va, e = table(n, 1 + i % 2, 1, case["n_eq"], False)
            pins[nm], vals[nm], eqs[nm] = p, va, e
        else:
            pins[nm], vals[nm], eqs[nm] = None, None, {}
    perms = [["u", "v", "w"], ["w", "u", "v"], ["v", "w", "u"]]
    od = case.get("order", [0, 0, 0])
    pins = {k: pins[k] for k in perms[od[0]]}
    vals = {k: vals[k] for k in perms[od[1]]}
    eqs = {k: eqs[k] for k in perms[od[2]]}
    g0 = jinns.data.DataGeneratorObservationsMultiPINNs(b, pins, vals, observed_eq_params_dict=eqs, key=key)
    site = "DataGeneratorObservationsMultiPINNs"

    def step(g, op, hist):
        g2, bd = g.get_batch()
        v = []
        if not isinstance(bd, dict) or sorted(bd) != names:
            return g2, [V(site, "batch_keys", f"{type(bd)} {sorted(bd) if isinstance(bd, dict) else ''}")]
        for i, nm in enumerate(names):
            if case["has"][i]:
                vv, _ = check_obs_batch(f"{site}[{nm}]", bd[nm], n, b, 1 + i % 2, 1, case["n_eq"])
                v += vv
            elif not (bd[nm] is None or bd[nm] == {}):
                v.append(V(site, "network_without_observations_has_non_empty_entry", f"{nm}: {bd[nm]}"))
        return g2, v

    def canon(g):
        return tuple(int(g.data_gen_obs[nm].curr_idx) if case["has"][i] else -1 for i, nm in enumerate(names))

    st = explore(g0, lambda s, h: ["G"], step, canon, depth, outcome=lambda g: str(canon(g)))
    return st.as_result({"nontrivial": nontriv, "sample": {"case": case, "ops": st.sample_trace}})
