"""C11 — forward-mode (separable, grid) and reverse-mode (pointwise) computations agree.

Separable monomial networks (SepMono) in the real SPINN wrapper versus the same function
evaluated pointwise (Twin) in the real PINN wrapper.  For every separable monomial
prod_d z_d^{e_d}, e_d <= 3, placed in the first rank slot (all pairs of monomials in the two
slots for d <= 2, which covers the quadratic terms) the grid value at index (i1..id) must
equal the pointwise reverse-mode value at (z_i1, ..., z_id); axis order time first."""
from __future__ import annotations

import itertools

import numpy as np
import jax
import jax.numpy as jnp
import equinox as eqx
import jinns
import jinns.loss as JL
from jinns.loss import _operators as OPS
from jinns.parameters import Params, ParamsDict
from jinns.utils._spinn import SPINN

from jmc.core import nets
from jmc.core import losslib as L
from jmc.core.refmodels import V

ID = "C11"
LEVEL = "exploration"
X64 = True
RULE = (
    "complete enumeration of separable monomials (exponents 0..3 per axis) in the first rank slot of the first output, with decoy "
    "monomials elsewhere, x D in 1..Dmax separated axes x {stationary, non-stationary} x rank r {1,2} x outputs m; for D <= 2 also "
    "every ordered pair of monomials in the two slots (quadratic terms); targets: laplacian, divergence, vector laplacian, "
    "advection, Burgers, Fisher-KPP, mass conservation, Navier-Stokes, Ornstein-Uhlenbeck, Dirichlet / Neumann boundary terms, "
    "initial condition, normalisation.  Non-trivial = pointwise reference not identically zero; distinct by (target, D, time, exponents)."
)
ASSUMPTIONS = [
    "batches have pairwise distinct, per-axis different coordinates, so a transposed or mis-ordered grid axis changes the value",
    "the pointwise (reverse-mode) side is decided against exact calculus by C01/C02/C04/C05",
    "x64; 1e-9 relative",
]
BOUNDS = {"quick": {"Dmax": 2, "B": 2}, "thorough": {"Dmax": 3, "B": 3}}


def mono(z, e):
    out = 1.0
    for p in range(3):
        out = out * jnp.where(e > p, z, 1.0)
    return out


class SepMono(eqx.Module):
    """inner network of a SPINN: feature (axis, j) = c[axis, j] * z_axis ** e[axis, j]"""
    c: jax.Array
    e: jax.Array

    def __call__(self, t, x):
        z = jnp.concatenate([t, x.flatten()]) if t is not None else x.flatten()
        return self.c * mono(z[:, None], self.e)


class TwinNet(eqx.Module):
    c: jax.Array
    e: jax.Array
    r: int = eqx.field(static=True)
    m: int = eqx.field(static=True)

    def __call__(self, z):
        f = self.c * mono(z[:, None], self.e)  # (D, r*m)
        prod = jnp.prod(f, axis=0).reshape(self.m, self.r)
        return jnp.sum(prod, axis=1)


class OUTri(JL.OU_FPENonStatioLoss2D):
    """the built-in Ornstein-Uhlenbeck loss with a lower-triangular (non-symmetric) square root of the diffusion"""

    def sigma_mat(self, t, x, eq_params):
        s = eq_params["sigma"]
        return jnp.array([[s[0], 0.0], [0.6 * s[1], s[1]]])


def make_pair(D, r, m, time):
    c0 = np.array([[0.6 + 0.25 * dd - 0.15 * j + 0.05 * dd * j for j in range(r * m)] for dd in range(D)])
    e0 = np.array([[(dd + 2 * j + 1) % 3 for j in range(r * m)] for dd in range(D)], dtype=float)
    eq_type = "nonstatio_PDE" if time else "statio_PDE"
    sp = SPINN(spinn_mlp=SepMono(jnp.asarray(c0), jnp.asarray(e0)), d=D, r=r, eq_type=eq_type, m=m)
    tw = nets.make_pinn(TwinNet(jnp.asarray(c0), jnp.asarray(e0), r, m), eq_type, m)
    return sp, tw, c0, e0


def axes_values(D, B):
    return np.array([[0.4 + 0.35 * i + 0.2 * dd - 0.07 * i * dd for dd in range(D)] for i in range(B)])  # (B, D)


def cases(tier, seed):
    Bd = BOUNDS[tier]
    out = []
    for D in range(1, Bd["Dmax"] + 1):
        for time in ((False, True) if D >= 2 else (False,)):
            for r in (1, 2):
                out.append(dict(target="laplacian", D=D, time=time, r=r, m=1, B=Bd["B"]))
                ds = D - (1 if time else 0)
                out.append(dict(target="divergence", D=D, time=time, r=r, m=ds, B=Bd["B"]))
                out.append(dict(target="vector_laplacian", D=D, time=time, r=r, m=2, B=Bd["B"]))
    if Bd["Dmax"] < 3:
        # one 2-D-space-plus-time case for every operator even in the quick tier (component / axis slips need >= 2 spatial axes)
        for tg, mm in (("laplacian", 1), ("divergence", 2), ("vector_laplacian", 2)):
            out.append(dict(target=tg, D=3, time=True, r=1, m=mm, B=2))
    # batches with fewer points than separated axes (a single collocation point per axis)
    for tg, mm, DD, tm in (("laplacian", 1, 2, False), ("divergence", 2, 2, False), ("divergence", 2, 3, True), ("divergence", 3, 3, False),
                           ("vector_laplacian", 2, 3, False), ("mass", 2, 2, False), ("advection", 2, 2, False)):
        out.append(dict(target=tg, D=DD, time=tm, r=2, m=mm, B=1))
    for time in (False, True):
        out.append(dict(target="advection", D=3 if time else 2, time=time, r=2, m=2, B=Bd["B"]))
    out.append(dict(target="burgers", D=2, time=True, r=2, m=1, B=Bd["B"]))
    out.append(dict(target="fisher", D=2, time=True, r=2, m=1, B=Bd["B"]))
    out.append(dict(target="fisher", D=3, time=True, r=1, m=1, B=2))
    out.append(dict(target="mass", D=2, time=False, r=2, m=2, B=Bd["B"]))
    out.append(dict(target="ns", D=2, time=False, r=2, m=2, B=Bd["B"]))
    out.append(dict(target="ou", D=3, time=True, r=1, m=1, B=2))
    out.append(dict(target="ou_tri", D=3, time=True, r=1, m=1, B=2))  # correlated noise: lower-triangular square root
    for t_ in ("dirichlet", "neumann", "norm"):
        for time in (False, True):
            out.append(dict(target=t_, D=3 if time else 2, time=time, r=1, m=1, B=2))
        out.append(dict(target=t_, D=1, time=False, r=2, m=1, B=2))
    # boundary condition on one selected component of a vector-valued separable network, constant boundary value
    for time in (False, True):
        out.append(dict(target="dirichlet", D=3 if time else 2, time=time, r=1, m=2, B=2, bdim=1))
    # Fisher-KPP with a spatially heterogeneous growth rate r(x) (a map over the spatial grid for the separable network)
    out.append(dict(target="fisher_hetero", D=2, time=True, r=2, m=1, B=Bd["B"]))
    out.append(dict(target="fisher_hetero", D=3, time=True, r=1, m=1, B=2))
    out.append(dict(target="initial", D=2, time=True, r=2, m=1, B=Bd["B"]))
    out.append(dict(target="initial", D=3, time=True, r=1, m=1, B=2))
    return out


def exponent_sets(D, r, m, e0, quadratic):
    """all exponent arrays to enumerate: slot (output 0, rank 0) over {0..3}^D; with r == 2 and D <= 2 also slot (0, 1)"""
    sets = []
    all_e = list(itertools.product(range(4), repeat=D))
    if quadratic and r >= 2 and D <= 2:
        for ea in all_e:
            for eb in all_e:
                E = e0.copy()
                E[:, 0], E[:, 1] = ea, eb
                sets.append(E)
    else:
        for ea in all_e:
            E = e0.copy()
            E[:, 0] = ea
            sets.append(E)
    return np.stack(sets)


def run_case(case):
    target, D, time, r, m, B = case["target"], case["D"], case["time"], case["r"], case["m"], case["B"]
    sp, tw, c0, e0 = make_pair(D, r, m, time)
    Z = axes_values(D, B)  # rows = batch index, columns = axis
    grid_pts = np.array([[Z[idx[dd], dd] for dd in range(D)] for idx in itertools.product(range(B), repeat=D)])  # (B^D, D)
    sp0, tw0 = sp.init_params(), tw.init_params()
    site = f"spinn_vs_pinn/{target}"
    quadratic = target in ("advection", "burgers", "fisher", "fisher_hetero", "ns", "dirichlet", "neumann", "norm", "initial")
    site = site.replace("ou_tri", "ou")
    Es = exponent_sets(D, r, m, e0, quadratic)
    zt = jnp.asarray(Z[:, :1]) if time else None
    zx = jnp.asarray(Z[:, 1:] if time else Z)
    gp = jnp.asarray(grid_pts)
    extra = {}

    def P_sp(E, eqp):
        return Params(nn_params=eqx.tree_at(lambda q: q.e, sp0, E), eq_params=eqp)

    def P_tw(E, eqp):
        return Params(nn_params=eqx.tree_at(lambda q: q.e, tw0, E), eq_params=eqp)

    def split(z):
        return (z[:1], z[1:]) if time else (None, z)

    eqp = {"nu": jnp.asarray(0.3), "D": jnp.asarray(0.4), "r": jnp.asarray([0.8]), "g": jnp.asarray(1.7), "rho": jnp.asarray(1.3),
           "alpha": jnp.asarray([0.5, 1.2]), "mu": jnp.asarray([0.2, -0.4]), "sigma": jnp.asarray([0.7, 1.1])}
    shape_grid = (B,) * D

    if target in ("laplacian", "divergence", "vector_laplacian", "advection"):
        fwd = {"laplacian": lambda p: OPS._laplacian_fwd(zt, zx, sp, p),
               "divergence": lambda p: OPS._div_fwd(zt, zx, sp, p),
               "vector_laplacian": lambda p: jnp.moveaxis(OPS._vectorial_laplacian(zt, zx, sp, p, u_vec_ndim=m), 0, -1),
               "advection": lambda p: OPS._u_dot_nabla_times_u_fwd(zt, zx, sp, p)}[target]
        rev = {"laplacian": lambda t, x, p: OPS._laplacian_rev(t, x, tw, p),
               "divergence": lambda t, x, p: OPS._div_rev(t, x, tw, p),
               "vector_laplacian": lambda t, x, p: OPS._vectorial_laplacian(t, x, tw, p, u_vec_ndim=m),
               "advection": lambda t, x, p: OPS._u_dot_nabla_times_u_rev(t, x, tw, p)}[target]
        f_fwd = lambda E: fwd(P_sp(E, eqp))
        f_rev = lambda E: jax.vmap(lambda z: rev(*split(z), P_tw(E, eqp)))(gp)
    elif target == "fisher_hetero":
        from jinns.utils._utils import _get_grid

        def r_grid(t, x, u, p):   # separable network: x is (B, ds), the map lives on the spatial grid
            g = _get_grid(x)
            return p.eq_params["r"][0] + 0.3 * g[..., 0] - (0.2 * g[..., 1] if g.shape[-1] > 1 else 0.0)

        def r_point(t, x, u, p):  # pointwise network: x is (ds,)
            return p.eq_params["r"] + 0.3 * x[0] - (0.2 * x[1] if x.shape[0] > 1 else 0.0)

        dl_s = JL.FisherKPP(Tmax=1.5, eq_params_heterogeneity={"D": None, "r": r_grid, "g": None})
        dl_p = JL.FisherKPP(Tmax=1.5, eq_params_heterogeneity={"D": None, "r": r_point, "g": None})
        f_fwd = lambda E: dl_s.evaluate(zt, zx, sp, P_sp(E, eqp))
        f_rev = lambda E: jax.vmap(lambda z: dl_p.evaluate(z[:1], z[1:], tw, P_tw(E, eqp)))(gp)
    elif target in ("burgers", "fisher", "ou", "ou_tri"):
        dl = {"burgers": JL.BurgerEquation(Tmax=1.5), "fisher": JL.FisherKPP(Tmax=1.5), "ou": JL.OU_FPENonStatioLoss2D(Tmax=1.5),
              "ou_tri": OUTri(Tmax=1.5)}[target]
        f_fwd = lambda E: dl.evaluate(zt, zx, sp, P_sp(E, eqp))
        f_rev = lambda E: jax.vmap(lambda z: dl.evaluate(z[:1], z[1:], tw, P_tw(E, eqp)))(gp)
    elif target in ("mass", "ns"):
        if target == "mass":
            dl = JL.MassConservation2DStatio(nn_key="u")
            f_fwd = lambda E: dl.evaluate(zx, {"u": sp}, ParamsDict(nn_params={"u": eqx.tree_at(lambda q: q.e, sp0, E)}, eq_params=eqp))
            f_rev = lambda E: jax.vmap(lambda z: dl.evaluate(z, {"u": tw}, ParamsDict(nn_params={"u": eqx.tree_at(lambda q: q.e, tw0, E)}, eq_params=eqp)))(gp)
        else:
            spp, twp, _, _ = make_pair(2, 2, 1, False)
            dl = JL.NavierStokes2DStatio(u_key="u", p_key="p")
            f_fwd = lambda E: dl.evaluate(zx, {"u": sp, "p": spp}, ParamsDict(nn_params={"u": eqx.tree_at(lambda q: q.e, sp0, E), "p": spp.init_params()}, eq_params=eqp))
            f_rev = lambda E: jax.vmap(lambda z: dl.evaluate(z, {"u": tw, "p": twp}, ParamsDict(nn_params={"u": eqx.tree_at(lambda q: q.e, tw0, E), "p": twp.init_params()}, eq_params=eqp)))(gp)
    else:
        return run_terms(case, sp, tw, sp0, tw0, Es, Z, grid_pts, eqp)

    got = np.asarray(jax.jit(jax.vmap(f_fwd))(jnp.asarray(Es)))
    ref = np.asarray(jax.jit(jax.vmap(f_rev))(jnp.asarray(Es)))
    n = len(Es)
    got = got.reshape(n, B**D, -1)
    ref = ref.reshape(n, B**D, -1)
    v = []
    if got.shape != ref.shape:
        v.append(V(site, "grid_shape_differs_from_pointwise_shape", f"{case}: {got.shape} vs {ref.shape}"))
    else:
        err = np.abs(got - ref) / (1 + np.abs(ref))
        bad = np.argwhere(err > 1e-9)
        if len(bad):
            i, pidx, comp = (int(x) for x in bad[0])
            idx = list(itertools.product(range(B), repeat=D))[pidx]
            v.append(V(site, "grid_value_differs_from_pointwise_value",
                       f"{case}: exponents {Es[i].T.tolist()} grid index {idx} point {grid_pts[pidx].tolist()} component {comp}: grid {got[i, pidx, comp]} pointwise {ref[i, pidx, comp]}; {len(set(int(b[0]) for b in bad))} network(s) affected"))
    nontriv = [f"{target}|{D}|{time}|{r}|{i}" for i in range(n) if np.any(np.abs(ref[i]) > 1e-12)]
    return dict(viol=v, evals=int(n * B**D), nontrivial=nontriv, outcomes=[f"{target}|{D}|{time}|{r}|{round(float(np.abs(ref).sum()), 5)}"],
                sample={"case": case, "networks": n, "grid_points": int(B**D)})


def run_terms(case, sp, tw, sp0, tw0, Es, Z, grid_pts, eqp):
    """loss terms: SPINN term value == PINN term value on the batch made of the full grid of points"""
    target, D, time, B = case["target"], case["D"], case["time"], case["B"]
    site = f"spinn_vs_pinn/{target}"
    kind = "nonstatio" if time else "statio"
    ds = D - (1 if time else 0)
    Zx = Z[:, 1:] if time else Z
    v, n = [], 0
    key = {"dirichlet": "boundary_loss", "neumann": "boundary_loss", "norm": "norm_loss", "initial": "initial_condition"}[target]
    stride = max(1, len(Es) // 24)
    vals = []
    for E in Es[::stride]:
        ps = Params(nn_params=eqx.tree_at(lambda q: q.e, sp0, jnp.asarray(E)), eq_params=eqp)
        pt = Params(nn_params=eqx.tree_at(lambda q: q.e, tw0, jnp.asarray(E)), eq_params=eqp)
        kw_s, kw_t = {}, {}
        border_s = border_t = None
        if target in ("dirichlet", "neumann"):
            cond = "dirichlet" if target == "dirichlet" else "von neumann"
            if time:
                fs = lambda t, dx: 0.3 + 0.2 * dx[..., 0:1] - 0.1 * t
                ft = lambda t, dx: 0.3 + 0.2 * dx[0:1] - 0.1 * t
            else:
                fs = lambda dx: 0.3 + 0.2 * dx[..., 0:1]
                ft = lambda dx: 0.3 + 0.2 * dx[0:1]
            kw_s = dict(omega_boundary_fun=fs, omega_boundary_condition=cond)
            kw_t = dict(omega_boundary_fun=ft, omega_boundary_condition=cond)
            if case.get("bdim") is not None:
                # one component of a vector-valued network is constrained to a constant value
                cst = (lambda t, dx: 0.35) if time else (lambda dx: 0.35)
                kw_s = dict(omega_boundary_fun=cst, omega_boundary_condition=cond, omega_boundary_dim=case["bdim"])
                kw_t = dict(omega_boundary_fun=cst, omega_boundary_condition=cond, omega_boundary_dim=case["bdim"])
            lo, hi = [-1.0, 0.5][:ds], [2.0, 1.5][:ds]
            # border batch: per facet, B points with the pinned coordinate on the facet
            fac = []
            for f in range(2 * ds):
                ax, val = f // 2, (lo if f % 2 == 0 else hi)[f // 2]
                pts = Zx.copy()
                pts[:, ax] = val
                fac.append(pts)
            bx = np.stack(fac, axis=-1)  # (B, ds, 2ds)
            if time:
                border_s = np.concatenate([np.repeat(Z[:, :1, None], 2 * ds, axis=2), bx], axis=1)  # (B, 1+ds, 2ds) paired rows
                # pointwise twin: full grid over (t, free coordinates) per facet
                rows = []
                for idx in itertools.product(range(B), repeat=D):
                    rows.append(np.stack([np.concatenate([[Z[idx[0], 0]], [bx[idx[1 + a], a, f] for a in range(ds)]]) for f in range(2 * ds)], axis=-1))
                border_t = np.stack(rows)
            elif ds == 1:
                # a 1-D stationary border batch is always the single row (xmin, xmax)
                border_s = border_t = bx[:1]
            else:
                border_s = bx
                rows = []
                for idx in itertools.product(range(B), repeat=D):
                    rows.append(np.stack([np.array([bx[idx[a], a, f] for a in range(ds)]) for f in range(2 * ds)], axis=-1))
                border_t = np.stack(rows)
            if ds == 1 and not time:
                pass
        if target == "norm":
            nS = 2 * B if time else B  # more normalisation samples than time stamps in the non-stationary case
            S = np.array([[0.2 + 0.3 * i + 0.1 * a - 0.04 * i * i for a in range(ds)] for i in range(nS)])
            Sg = np.array([[S[idx[a], a] for a in range(ds)] for idx in itertools.product(range(len(S)), repeat=ds)])
            kw_s = dict(norm_samples=jnp.asarray(S), norm_int_length=2.0)
            kw_t = dict(norm_samples=jnp.asarray(Sg), norm_int_length=2.0)
        if target == "initial":
            if ds == 1:
                kw_s = dict(initial_condition_fun=lambda x: jnp.sin(x))
            else:
                kw_s = dict(initial_condition_fun=lambda x: jnp.sin(x[..., 0:1]) + 0.5 * x[..., 1:2])
            kw_t = dict(initial_condition_fun=(lambda x: jnp.sin(x)) if ds == 1 else (lambda x: jnp.sin(x[0:1]) + 0.5 * x[1:2]))
        LS = jinns.loss.LossPDENonStatio if time else jinns.loss.LossPDEStatio
        ls = L.quiet(LS, u=sp, dynamic_loss=None, params=ps, **kw_s)
        lt = L.quiet(LS, u=tw, dynamic_loss=None, params=pt, **kw_t)
        bs = L.make_batch(kind, Z, border=border_s)
        bt = L.make_batch(kind, grid_pts, border=border_t)
        a = float(ls.evaluate(ps, bs)[1][key])
        b = float(lt.evaluate(pt, bt)[1][key])
        n += 1
        vals.append(b)
        if abs(a - b) > 1e-9 * (1 + abs(b)):
            v.append(V(site, "separable_term_differs_from_pointwise_term_on_the_grid", f"{case}: exponents {np.asarray(E).T.tolist()}: separable {a} pointwise {b}"))
            break
    return dict(viol=v, evals=n, nontrivial=[f"{target}|{D}|{time}|{i}" for i, b in enumerate(vals) if abs(b) > 1e-12],
                outcomes=[f"{target}|{D}|{time}|{round(float(np.sum(vals)), 5)}"], sample={"case": case, "networks": n})
