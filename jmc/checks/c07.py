"""C07 — solve() is observationally the textbook mini-batch training loop.

Machine: state = (params, optimizer state, data generator); one transition = one real
jinns.solve(n_iter=k) call started from a state (the initial one, or the one returned
by the previous call: resumed runs).  Every transition is compared, output by output,
with the reference loop started from the same state."""
from __future__ import annotations

import warnings

import numpy as np
import jax
import jinns

from jmc.core import trainlib as tl
from jmc.core.refmodels import V

ID = "C07"
LEVEL = "model_checking"
X64 = True
RULE = (
    "complete enumeration of training programs: loss kind x optimizer {sgd, adam, chain(clip, scale_by_adam, schedule)} x (n,b) "
    "{divides, does not} x auxiliary generators {none, param, obs, both} x tracked {none, eq, nn+eq} x split of n_iter into a "
    "chain of resumed solve calls x execution path {lax.while_loop, Python loop with obs_batch_sharding}; every solve call is one transition compared with the reference loop from the same state. "
    "Non-trivial = consecutive loss values of the run differ (batches/parameters distinguishable); distinct by program."
)
ASSUMPTIONS = [
    "the reference loop uses the same public loss/optimizer objects (jinns.loss.* evaluate, optax), so only the orchestration of solve is under test",
    "solve draws one priming batch per call; this is part of the observable contract (returned generator state)",
    "x64; tolerance 1e-10 relative on values, bit-exact on generator state",
    "auxiliary generators are not returned by solve; a resumed call restarts them from the user's objects (in both implementation and reference)",
]
BOUNDS = {
    "quick": {"kinds": ["ode", "statio"], "opts": ["sgd", "adam"], "splits": [[1], [3], [1, 2]]},
    "thorough": {"kinds": ["ode", "statio", "nonstatio"], "opts": ["sgd", "adam", "chain"],
                 "splits": [[1], [2], [3], [5], [1, 2], [2, 3], [1, 1, 1]]},
}


def cases(tier, seed):
    B = BOUNDS[tier]
    out = []
    for kind in B["kinds"]:
        for opt in B["opts"]:
            for (n, b) in ((4, 2), (5, 2)):
                for aux in ("none", "param", "obs", "both"):
                    for tracked in ("none", "eq", "nn+eq"):
                        for split in B["splits"]:
                            if tier == "quick":
                                # quick: a covering sub-product (every value of every dimension, all pairs with split)
                                h = hash((kind, opt, n, aux, tracked, tuple(split))) if False else (
                                    ["ode", "statio", "nonstatio"].index(kind) + ["sgd", "adam", "chain"].index(opt) + n
                                    + ["none", "param", "obs", "both"].index(aux) + ["none", "eq", "nn+eq"].index(tracked) + len(split) + sum(split))
                                if h % 3:
                                    continue
                            out.append(dict(kind=kind, opt=opt, n=n, b=b, aux=aux, tracked=tracked, split=split, key=seed + 5, path="while_loop",
                                            **({"nt": n + 1, "bt": b + 1} if kind == "nonstatio" else {})))
                            if aux in ("obs", "both") and tracked != "nn+eq":
                                # second execution path of solve: a Python while loop with an un-jitted get_batch when the
                                # observation batch is placed on a device explicitly (obs_batch_sharding)
                                out.append(dict(kind=kind, opt=opt, n=n, b=b, aux=aux, tracked=tracked, split=split, key=seed + 5, path="python_loop"))
    if "nonstatio" not in B["kinds"]:
        # quick tier: a few space-time programs (temporal batch size != spatial batch size, auxiliary loaders of
        # temporal x spatial rows)
        for (aux, tracked, split) in (("both", "eq", [3]), ("param", "nn+eq", [1, 2]), ("obs", "none", [2]), ("none", "eq", [3])):
            out.append(dict(kind="nonstatio", opt="sgd", n=4, b=2, nt=5, bt=3, aux=aux, tracked=tracked, split=split, key=seed + 5, path="while_loop"))
    for kind in B["kinds"]:
        for opt in B["opts"]:
            out.append(dict(kind=kind, opt=opt, n=4, b=2, aux="none", tracked="eq", split=[3], key=seed + 5, path="while_loop", inf_param=True))
    for opt in B["opts"]:
        for split in ([5], [2, 3]):
            # training with residual-adaptive refinement active (the generator state it returns is compared too)
            out.append(dict(kind="ode", opt=opt, n=4, b=2, aux="none", tracked="none", split=split, key=seed + 5, path="while_loop", rar=True))
    for opt in B["opts"]:
        for kind in B["kinds"]:
            # the default floating-point mode of JAX (32 bit): same programs, tolerance 1e-4
            out.append(dict(kind=kind, opt=opt, n=5, b=2, aux="both", tracked="eq", split=[3], key=seed + 5, path="while_loop", x64=False))
            out.append(dict(kind=kind, opt=opt, n=4, b=2, aux="none", tracked="none", split=[2, 2], key=seed + 5, path="while_loop", x64=False))
    # 32-bit mode, temporal batch much larger than the spatial one (solve draws through jax.jit, where the cursors are
    # 32-bit integers)
    for split in ([3], [2, 2]):
        out.append(dict(kind="nonstatio", opt="sgd", n=4, b=2, nt=7, bt=6, aux="none", tracked="none", split=split, key=seed + 5, path="while_loop", x64=False))
    out.sort(key=lambda c: (len(c["split"]), sum(c["split"]), c["aux"] != "none", c["tracked"] != "none"))
    return out


def compare(site, out, ref, n_iter, tracked, tol0=1e-10):
    v = []

    def chk(name, a, b, tol=None):
        tol = tol0 if tol is None else tol
        ok, msg = tl.leaves_close(a, b, tol)
        if not ok:
            v.append(V(site, f"{name}_differs_from_reference_loop", msg))

    chk("final_params", out[0], ref["params"])
    chk("total_loss_history", out[1], ref["totals"])
    if set(out[2]) != set(ref["terms"]):
        v.append(V(site, "loss_term_keys", f"{sorted(out[2])} vs {sorted(ref['terms'])}"))
    else:
        for k in out[2]:
            chk(f"term_history[{k}]", out[2][k], ref["terms"][k])
    if not tl.gen_equal(out[3], ref["data"]):
        v.append(V(site, "returned_generator_differs_from_reference_loop", "store / cursor / key"))
    chk("optimizer_state", out[5], ref["opt_state"])
    if tracked is None:
        if jax.tree_util.tree_leaves(out[6]):
            v.append(V(site, "tracked_history_present_without_request", ""))
    else:
        chk("tracked_parameter_history", out[6], ref["tracked"])
    if out[7] is not None or out[8] is not None:
        v.append(V(site, "validation_outputs_without_validation", ""))
    if np.asarray(out[1]).shape != (n_iter,):
        v.append(V(site, "history_length", f"{np.asarray(out[1]).shape}"))
    return v


def run_case(case):
    with warnings.catch_warnings():
        warnings.simplefilter("ignore")
        P = tl.make_problem(case)
    opt = tl.make_optimizer(case["opt"])
    tracked = tl.tracked_spec(case["tracked"], P["params"])
    site = f"solve/{case['kind']}"
    params, opt_state, data = P["params"], None, P["data"]
    viol, states, nontrivial = [], 1, False
    for seg, k in enumerate(case["split"]):
        ref = tl.reference_loop(k, params, data, P["loss"], opt, opt_state, tracked, P["param_data"], P["obs_data"])
        with warnings.catch_warnings():
            warnings.simplefilter("ignore")
            kw = {}
            if case.get("path") == "python_loop":
                kw["obs_batch_sharding"] = jax.sharding.SingleDeviceSharding(jax.devices()[0])
            out = jinns.solve(n_iter=k, init_params=params, data=data, loss=P["loss"], optimizer=opt, opt_state=opt_state,
                              tracked_params=tracked, param_data=P["param_data"], obs_data=P["obs_data"], verbose=False, **kw)
        v = compare(site + ("/python_loop" if case.get("path") == "python_loop" else "") + ("/resumed" if seg else ""), out, ref, k, tracked,
                    1e-10 if case.get("x64", True) else 1e-4)
        states += 1
        tot = ref["totals"]
        if len(tot) >= 2 and np.min(np.abs(np.diff(tot))) > 1e-6 * (1 + np.max(np.abs(tot))):
            nontrivial = True
        if len(tot) == 1 and seg > 0:
            nontrivial = True
        if v:
            viol += v
            break
        params, opt_state, data = out[0], out[5], out[3]
    return dict(viol=viol, evals=len(case["split"]), states=states, transitions=states - 1, traces=1,
                nontrivial=[str({k: v for k, v in case.items() if k != "key"})] if (nontrivial or sum(case["split"]) == 1) else [],
                outcomes=[f"{case['kind']}|{case['opt']}|{case['split']}|{round(float(ref['totals'][-1]), 6)}"],
                sample={"program": case, "last_total": float(ref["totals"][-1])})
