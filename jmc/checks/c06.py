"""C06 — derivative keys route each term's gradient to exactly the selected parameters.

Exhaustive over the mask cube: every assignment {selected, not} to every (loss term,
parameter group) pair.  The masks are boolean leaves of the loss pytree (that is how solve
sees them), so one compiled value-and-grad is vmapped over the whole cube; a simplest-first
subset is re-run eagerly with Python booleans; string forms and the default are compared
with their boolean trees."""
from __future__ import annotations

import itertools

import numpy as np
import jax
import jax.numpy as jnp
import equinox as eqx
import jinns
from jinns.parameters import DerivativeKeysODE, DerivativeKeysPDEStatio, DerivativeKeysPDENonStatio, Params

from jmc.core import losslib as L
from jmc.core.refmodels import V

ID = "C06"
LEVEL = "exploration"
X64 = True
RULE = (
    "complete enumeration of the mask cube {selected, not}^(terms x groups) per loss kind (ODE 3 terms, stationary 4, "
    "non-stationary 5; groups = network parameters + each equation parameter), all evaluated through the real loss; plus all "
    "single-bit / all-but-one masks eagerly with Python booleans, every string specification in {nn_params, eq_params, both}^terms "
    "and the default.  Non-trivial = masks for which at least one selected pair has a non-zero reference gradient; distinct by (kind, mask)."
)
ASSUMPTIONS = [
    "every term depends on every group (the network consumes the equation parameters through its output transform), checked: reference gradients are non-zero",
    "reference per-term gradients are validated against central finite differences of the returned term values",
    "x64; 1e-10 relative on gradients, exact equality of loss values across masks, exact zero for unselected pairs",
]
BOUNDS = {"quick": {"eq": ["a"]}, "thorough": {"eq": ["a", "b"]}}
TERMS = {"ode": ["dyn_loss", "initial_condition", "observations"],
         "statio": ["dyn_loss", "norm_loss", "boundary_loss", "observations"],
         "nonstatio": ["dyn_loss", "norm_loss", "boundary_loss", "observations", "initial_condition"]}
DK = {"ode": DerivativeKeysODE, "statio": DerivativeKeysPDEStatio, "nonstatio": DerivativeKeysPDENonStatio}


def cases(tier, seed):
    out = []
    for kind in ("ode", "statio", "nonstatio"):
        # quick: two equation parameters for the 2^9 / 2^12 cubes, one for the non-stationary 2^10 cube
        eqs = ["a", "b"] if (tier == "thorough" or kind != "nonstatio") else ["a"]
        out.append(dict(type="cube", kind=kind, eq=eqs, quick=tier == "quick"))
        out.append(dict(type="cube", kind=kind, eq=[], quick=tier == "quick"))  # forward problem: eq_params == {}
        # the same cube evaluated on a batch that carries per-sample values of another parameter (vmapped code paths)
        out.append(dict(type="cube", kind=kind, eq=["a"], quick=tier == "quick", pbatch=True))
        # a hyper-network whose input is the equation parameter a: the gradient w.r.t. a flows through the generated weights
        if kind != "nonstatio" or tier == "thorough":
            out.append(dict(type="cube", kind=kind, eq=["a"], quick=tier == "quick", hyper=True))
        out.append(dict(type="strings", kind=kind, eq=eqs))
        out.append(dict(type="system", kind=kind, eq=BOUNDS[tier]["eq"]))
    # a parameter whose derivative is not finite at the current value (sqrt(k) at k = 0): when no term selects it, its
    # gradient is exactly zero (the graph is cut), never NaN
    out.append(dict(type="nonfinite", kind="ode", eq=["a", "k"]))
    return [c for c in out if not (c["type"] == "system" and c["kind"] == "statio")]


def out_tr(inp, out, p):
    if "a" not in p.eq_params:
        return out + 0.1 * jnp.sum(inp)
    r = out * (1.0 + 0.3 * p.eq_params["a"]) + 0.1 * jnp.sum(inp)
    if "q" in p.eq_params:
        r = r * (1.0 + 0.2 * jnp.reshape(p.eq_params["q"], (-1,))[0])
    if "b" in p.eq_params:
        r = r + 0.2 * p.eq_params["b"] * jnp.sum(inp) ** 2
    return r


def build(kind, eqs, dk=None, pbatch=False, hyper=False):
    d = 1
    if hyper:
        n_in = d + (0 if kind == "statio" else 1) if kind != "ode" else 1
        u = jinns.utils.create_HYPERPINN(jax.random.PRNGKey(3), ((eqx.nn.Linear, n_in, 2), (jnp.tanh,), (eqx.nn.Linear, 2, 1)), L.EQ_TYPE[kind], ["a"], 1,
                                         d if kind != "ode" else 0, output_transform=out_tr,
                                         eqx_list_hyper=((eqx.nn.Linear, 1, 3), (jnp.tanh,), (eqx.nn.Linear, 3, 1000)))
    else:
        u, coef, expo = L.make_u(kind, d, 1, deg=2, salt=5, output_transform=out_tr)
    eqp = {"b": jnp.asarray(-0.4)} if "b" in eqs else {}
    if "a" in eqs:
        eqp["a"] = jnp.asarray(0.7)  # non-alphabetical insertion order
    pb = None
    if pbatch:
        eqp["q"] = jnp.asarray(0.5)
        pb = {"q": jnp.asarray(np.array([[0.4], [-0.7], [1.1]]))}
    params = Params(nn_params=u.init_params(), eq_params=eqp)
    nv = L.nvar_of(kind, d)
    pts = L.points(3, nv)
    obs = {"pinn_in": jnp.asarray(L.points(3, nv, salt=7)), "val": jnp.asarray(np.array([[0.2], [-0.1], [0.4]])), "eq_params": {}}
    dyn = EQ[kind]()
    if kind == "ode":
        loss = L.quiet(jinns.loss.LossODE, u=u, dynamic_loss=dyn, initial_condition=(0.3, jnp.asarray([0.2])), derivative_keys=dk, params=params)
        batch = L.make_batch(kind, pts, obs=obs, param=pb)
    else:
        kw = dict(norm_samples=jnp.asarray(L.points(3, d, salt=4)), norm_int_length=2.0, omega_boundary_condition="dirichlet")
        if kind == "statio":
            border = np.stack([L.points(1, d, salt=f) for f in range(2)], axis=-1)
            loss = L.quiet(jinns.loss.LossPDEStatio, u=u, dynamic_loss=dyn, omega_boundary_fun=lambda dx: 0.25, derivative_keys=dk, params=params, **kw)
        else:
            border = np.stack([L.points(2, 1 + d, salt=f) for f in range(2)], axis=-1)
            loss = L.quiet(jinns.loss.LossPDENonStatio, u=u, dynamic_loss=dyn, omega_boundary_fun=lambda t, dx: 0.25,
                           initial_condition_fun=lambda x: jnp.sin(x), derivative_keys=dk, params=params, **kw)
        if pbatch:
            # normalisation and 1-D boundary batches do not have one row per sample: not combined with a parameter batch
            kw2 = dict(initial_condition_fun=lambda x: jnp.sin(x)) if kind == "nonstatio" else {}
            LS = jinns.loss.LossPDEStatio if kind == "statio" else jinns.loss.LossPDENonStatio
            loss = L.quiet(LS, u=u, dynamic_loss=dyn, derivative_keys=dk, params=params, **kw2)
            border = None
        batch = L.make_batch(kind, pts, border=border, obs=obs, param=pb)
    return loss, params, batch


class EqODE(jinns.loss.ODE):
    def equation(self, t, u, params):
        du = jax.jacfwd(lambda tt: u(tt, params))(t).reshape(-1)
        return du + params.eq_params.get("a", 0.5) * u(t, params) ** 2 + params.eq_params.get("b", 0.0) * t


class EqStatio(jinns.loss.PDEStatio):
    def equation(self, x, u, params):
        g = jax.jacfwd(lambda xx: u(xx, params))(x).reshape(-1)
        return g[:1] + params.eq_params.get("a", 0.5) * u(x, params) ** 2 + params.eq_params.get("b", 0.0) * x[0]


class EqNonStatio(jinns.loss.PDENonStatio):
    def equation(self, t, x, u, params):
        g = jax.jacfwd(lambda xx: u(t, xx, params))(x).reshape(-1)
        gt = jax.jacfwd(lambda tt: u(tt, x, params))(t).reshape(-1)
        return gt + g[:1] + params.eq_params.get("a", 0.5) * u(t, x, params) ** 2 + params.eq_params.get("b", 0.0) * x[0]


EQ = {"ode": EqODE, "statio": EqStatio, "nonstatio": EqNonStatio}


def dk_from_masks(kind, eqs, terms, masks, reverse_keys=False, extra=None, defaults_from=None):
    """masks: (n_terms, 1+len(eqs)) booleans (python or traced).  reverse_keys: write the mask dictionaries with their
    keys in reverse order (a dict is matched by key, not by position)"""
    kw = {}
    order = list(enumerate(eqs))
    if reverse_keys:
        order = order[::-1]
    for ti, t in enumerate(terms):
        kw[t] = Params(nn_params=masks[ti][0], eq_params={**{e: masks[ti][1 + ei] for ei, e in order}, **(extra or {})})
    if defaults_from is not None:
        kw["params"] = defaults_from  # terms that are not enumerated keep their default specification
    return DK[kind](**kw)


def flat_grad(g, eqs):
    nn = jnp.concatenate([jnp.ravel(x) for x in jax.tree_util.tree_leaves(g.nn_params)])
    return [nn] + [jnp.reshape(g.eq_params[e], (1,)) for e in eqs]


def run_cube(case):
    kind, eqs = case["kind"], case["eq"]
    pbatch = case.get("pbatch", False)
    hyper = case.get("hyper", False)
    terms = TERMS[kind] if not pbatch else [t for t in TERMS[kind] if t not in ("norm_loss", "boundary_loss")]
    nT, nG = len(terms), 1 + len(eqs)
    site = f"derivative_keys/{kind}" + ("/param_batch" if pbatch else "") + ("/hyper_network" if hyper else "")
    extra = {"q": True} if pbatch else None
    def build_(kind_, eqs_, dk_=None, pbatch_=False):
        return build(kind_, eqs_, dk_, pbatch_, hyper)

    _, params_d, _ = build_(kind, eqs, None, pbatch) if pbatch else (None, None, None)
    _dk = dk_from_masks

    def dk_from_masks_(kind_, eqs_, terms_, masks_, reverse_keys=False):
        return _dk(kind_, eqs_, terms_, masks_, reverse_keys=reverse_keys, extra=extra, defaults_from=params_d)

    loss0, params, batch = build_(kind, eqs, dk_from_masks_(kind, eqs, terms, [[True] * nG] * nT), pbatch)

    def f(masks):
        loss = eqx.tree_at(lambda l: l.derivative_keys, loss0, dk_from_masks_(kind, eqs, terms, masks))
        (tot, td), g = jax.value_and_grad(lambda p: loss.evaluate(p, batch), has_aux=True)(params)
        per = [flat_grad(jax.grad(lambda p, t=t: loss.evaluate(p, batch)[1][t])(params), eqs) for t in terms]
        return tot, jnp.stack([td[t] for t in terms]), flat_grad(g, eqs), per

    cube = np.array(list(itertools.product([True, False], repeat=nT * nG))).reshape(-1, nT, nG)
    tot, tds, gtot, per = jax.jit(jax.vmap(f))(jnp.asarray(cube))
    tot, tds = np.asarray(tot), np.asarray(tds)
    gtot = [np.asarray(x) for x in gtot]            # per group: (N, size)
    per = [[np.asarray(x) for x in pt] for pt in per]  # [term][group]: (N, size)
    v = []
    # reference gradients: the all-selected mask is entry 0
    Gref = [[per[t][g][0] for g in range(nG)] for t in range(nT)]
    vac = [(terms[t], g) for t in range(nT) for g in range(nG) if not np.any(np.abs(Gref[t][g]) > 1e-8)]
    if vac:
        raise RuntimeError(f"vacuous (term, group) pairs in the harness problem: {vac}")
    # finite-difference validation of the reference gradients w.r.t. the equation parameters
    loss_all = eqx.tree_at(lambda l: l.derivative_keys, loss0, dk_from_masks_(kind, eqs, terms, [[True] * nG] * nT))
    h = 1e-6
    for ei, e in enumerate(eqs):
        pp = eqx.tree_at(lambda p: p.eq_params[e], params, params.eq_params[e] + h)
        pm = eqx.tree_at(lambda p: p.eq_params[e], params, params.eq_params[e] - h)
        tp, tm = L.jit_eval(loss_all, pp, batch)[1], L.jit_eval(loss_all, pm, batch)[1]
        for ti, t in enumerate(terms):
            fd = (float(tp[t]) - float(tm[t])) / (2 * h)
            if abs(fd - Gref[ti][1 + ei][0]) > 1e-5 * (1 + abs(fd)):
                v.append(V(site, "selected_gradient_is_not_the_gradient_of_the_term", f"term {t} wrt {e}: AD {Gref[ti][1 + ei][0]} finite difference {fd}"))
    # loss values never depend on the specification
    if not (np.all(tot == tot[0]) and np.all(tds == tds[0])):
        v.append(V(site, "loss_value_depends_on_derivative_specification", f"total range {tot.min()}..{tot.max()}"))
    nontriv = 0
    for g in range(nG):
        gname = "nn_params" if g == 0 else f"eq_params[{eqs[g - 1]}]"
        exp = sum(cube[:, t, g][:, None] * Gref[t][g][None, :] for t in range(nT))
        err = np.abs(gtot[g] - exp) / (1 + np.abs(exp))
        bad = np.argwhere(err.max(axis=1) > 1e-10)
        if len(bad):
            i = int(bad[0][0])
            sel = [terms[t] for t in range(nT) if cube[i, t, g]]
            v.append(V(site, "total_gradient_is_not_the_sum_over_selecting_terms", f"group {gname}, selected by {sel}: got {gtot[g][i][:3]} expected {exp[i][:3]}; {len(bad)} mask(s) affected"))
        for t in range(nT):
            sel = cube[:, t, g]
            leak = np.abs(per[t][g][~sel]).max() if np.any(~sel) else 0.0
            if leak != 0.0:
                v.append(V(site, "unselected_pair_contributes_gradient", f"term {terms[t]} -> {gname}: |grad| {leak}"))
            errp = np.abs(per[t][g][sel] - Gref[t][g][None, :]).max() if np.any(sel) else 0.0
            if errp > 1e-10 * (1 + np.abs(Gref[t][g]).max()):
                v.append(V(site, "selected_pair_gradient_depends_on_other_pairs", f"term {terms[t]} -> {gname}: deviation {errp}"))
    # eager binding: single-bit and all-but-one masks with Python booleans
    neager = 0
    pairs = sorted(itertools.product(range(nT), range(nG)), key=lambda tg: (tg[1] == 0, tg))  # equation-parameter groups first
    for (t, g) in pairs:
        for base in (False, True):
            m = [[base] * nG for _ in range(nT)]
            m[t][g] = not base
            le, pe, be = build_(kind, eqs, dk_from_masks_(kind, eqs, terms, m, reverse_keys=True), pbatch)
            ge = flat_grad(jax.grad(lambda p: le.evaluate(p, be)[0])(pe), eqs)
            idx = int(np.argwhere((cube.reshape(len(cube), -1) == np.array(m).reshape(-1)).all(axis=1))[0][0])
            neager += 1
            for gg in range(nG):
                if np.abs(np.asarray(ge[gg]) - gtot[gg][idx]).max() > 1e-10 * (1 + np.abs(gtot[gg][idx]).max()):
                    v.append(V(site, "eager_python_boolean_masks_disagree_with_traced_masks", f"mask {m} group {gg}"))
            if tier_is_quick(case) and neager >= 10:
                break
        if tier_is_quick(case) and neager >= 10:
            break
    return dict(viol=v, evals=len(cube) + neager, nontrivial=[f"{site}|{eqs}|{i}" for i in range(len(cube)) if cube[i].any()],
                outcomes=[f"{kind}|{round(float(np.abs(gtot[0]).sum()), 6)}"] + [f"{kind}|g{g}|{len(np.unique(np.round(gtot[g], 9), axis=0))}" for g in range(nG)],
                sample={"kind": kind, "masks": len(cube), "terms": terms, "groups": ["nn_params"] + eqs, "eager_rechecks": neager})


def tier_is_quick(case):
    return case.get("quick", False)


def run_nonfinite(case):
    site = "derivative_keys/ode/non_finite_derivative"

    def ot(inp, out, p):
        return out * (1.0 + 0.3 * p.eq_params["a"]) + jnp.sqrt(p.eq_params["k"]) * jnp.sum(inp)

    u, _, _ = L.make_u("ode", 1, 1, deg=2, salt=5, output_transform=ot)
    params = Params(nn_params=u.init_params(), eq_params={"k": jnp.asarray(0.0), "a": jnp.asarray(0.7)})
    pts = L.points(3, 1)
    obs = {"pinn_in": jnp.asarray(L.points(3, 1, salt=7)), "val": jnp.asarray(np.array([[0.2], [-0.1], [0.4]])), "eq_params": {}}
    batch = L.make_batch("ode", pts, obs=obs)
    terms = TERMS["ode"]
    specs = {
        "default": None,
        "from_str(nn_params)": DerivativeKeysODE.from_str(params=params, **{t: "nn_params" for t in terms}),
        "boolean tree (a selected, k not)": DerivativeKeysODE(**{t: Params(nn_params=True, eq_params={"a": True, "k": False}) for t in terms}),
    }
    v, n = [], 0
    for name, dk in specs.items():
        loss = L.quiet(jinns.loss.LossODE, u=u, dynamic_loss=EqODE(), initial_condition=(0.3, jnp.asarray([0.2])), derivative_keys=dk, params=params)
        for mode in ("eager", "jit"):
            f = (lambda p: loss.evaluate(p, batch)[0])
            val, g = (jax.value_and_grad(f)(params) if mode == "eager" else jax.jit(jax.value_and_grad(f))(params))
            n += 1
            gk = float(g.eq_params["k"])
            if not np.isfinite(float(val)):
                raise RuntimeError("harness problem: the loss value must be finite")
            if gk != 0.0:
                v.append(V(site, "unselected_parameter_with_non_finite_derivative_gets_a_non_zero_gradient", f"specification {name}, {mode}: d/dk = {gk}"))
            if name.startswith("boolean") and not np.isfinite(float(g.eq_params["a"])):
                v.append(V(site, "selected_parameter_gradient_not_finite", f"{mode}: {float(g.eq_params['a'])}"))
    return dict(viol=v, evals=n, nontrivial=[f"nonfinite|{k}" for k in specs], outcomes=[f"nonfinite|{n}"], sample={"case": case})


def run_strings(case):
    kind, eqs = case["kind"], case["eq"]
    terms = TERMS[kind]
    site = f"derivative_keys/{kind}/strings"
    loss0, params, batch = build(kind, eqs, None)
    v = []
    n = 0
    expect = {"nn_params": (True, False), "eq_params": (False, True), "both": (True, True)}

    def tree_bools(dk):
        return {t: (bool(getattr(dk, t).nn_params), {e: bool(getattr(dk, t).eq_params[e]) for e in params.eq_params}) for t in terms}

    for combo in itertools.product(("nn_params", "eq_params", "both"), repeat=len(terms)):
        dk = DK[kind].from_str(params=params, **dict(zip(terms, combo)))
        got = tree_bools(dk)
        exp = {t: (expect[s][0], {e: expect[s][1] for e in params.eq_params}) for t, s in zip(terms, combo)}
        n += 1
        if got != exp:
            v.append(V(site, "string_form_differs_from_boolean_tree", f"{dict(zip(terms, combo))}: {got}"))
            break
    # default: network parameters only
    d_loss = tree_bools(loss0.derivative_keys)
    d_cls = tree_bools(DK[kind](params=params))
    exp = {t: (True, {e: False for e in params.eq_params}) for t in terms}
    if d_loss != exp or d_cls != exp:
        v.append(V(site, "default_does_not_select_network_parameters_only", f"{d_loss}"))
    # gradient-level equivalence for the uniform strings and the default
    for s in ("nn_params", "eq_params", "both", None):
        dk_s = None if s is None else DK[kind].from_str(params=params, **{t: s for t in terms})
        ls, ps, bs = build(kind, eqs, dk_s)
        m = expect["nn_params" if s is None else s]
        lb, pb, bb = build(kind, eqs, dk_from_masks(kind, eqs, terms, [[m[0]] + [m[1]] * len(eqs)] * len(terms)))
        gs = flat_grad(jax.grad(lambda p: ls.evaluate(p, bs)[0])(ps), eqs)
        gb = flat_grad(jax.grad(lambda p: lb.evaluate(p, bb)[0])(pb), eqs)
        n += 1
        for a, b in zip(gs, gb):
            if not np.array_equal(np.asarray(a), np.asarray(b)):
                v.append(V(site, "string_form_gradient_differs_from_boolean_tree_gradient", f"spec {s}"))
        if s in ("nn_params", None) and any(np.any(np.asarray(x) != 0) for x in gs[1:]):
            v.append(V(site, "default_or_nn_params_spec_differentiates_equation_parameters", f"spec {s}"))
    return dict(viol=v, evals=n, nontrivial=[f"{kind}|str|{i}" for i in range(n)], outcomes=[f"{kind}|strings|{n}"], sample={"kind": kind, "string_specs": n})


def run_system(case):
    """per-unknown constraint terms of SystemLossODE / SystemLossPDE (non-stationary) with 2 unknowns: every mask over
    (initial condition, observations) x (nn, a[, b]) per unknown; reference gradients from the single loss of each unknown"""
    eqs = case["eq"]
    kind = case["kind"]
    pde = kind != "ode"
    site = "derivative_keys/" + ("SystemLossPDE" if pde else "SystemLossODE")
    names = ["u", "v"]
    d = 1 if pde else 0
    nv = L.nvar_of(kind, d)
    us = {n: L.make_u(kind, d, 1, deg=2, salt=5 + i, output_transform=out_tr)[0] for i, n in enumerate(names)}
    eqp = {"a": jnp.asarray(0.7)}
    if "b" in eqs:
        eqp["b"] = jnp.asarray(-0.4)
    pd = jinns.parameters.ParamsDict(nn_params={n: us[n].init_params() for n in names}, eq_params=eqp)
    DKC = DerivativeKeysPDENonStatio if pde else DerivativeKeysODE

    class SysO(jinns.loss.ODE):
        def equation(self, t, u_dict, params_dict):
            return u_dict["u"](t, params_dict.extract_params("u")) - u_dict["v"](t, params_dict.extract_params("v"))

    class SysN(jinns.loss.PDENonStatio):
        def equation(self, t, x, u_dict, params_dict):
            return u_dict["u"](t, x, params_dict.extract_params("u")) - u_dict["v"](t, x, params_dict.extract_params("v"))

    terms = ["initial_condition", "observations"]
    nG = 1 + len(eqs)
    obs = {n: {"pinn_in": jnp.asarray(L.points(2, nv, salt=7 + i)), "val": jnp.asarray(np.array([[0.2], [-0.1]]) * (i + 1)), "eq_params": {}} for i, n in enumerate(names)}
    pts = L.points(2, nv)
    batch = L.make_batch(kind, pts, obs=obs)
    ic_ode = {"u": (0.3, jnp.asarray([0.2])), "v": (0.1, jnp.asarray([-0.3]))}
    ic_pde = {"u": (lambda x: jnp.sin(x)), "v": (lambda x: 0.5 * jnp.cos(x))}

    def mk(masks):  # masks[unknown][term][group]
        dkd = {}
        for ui, n in enumerate(names):
            kw = dict(dyn_loss=Params(nn_params=True, eq_params={e: True for e in eqs}),
                      initial_condition=Params(nn_params=masks[ui][0][0], eq_params={e: masks[ui][0][1 + k] for k, e in enumerate(eqs)}),
                      observations=Params(nn_params=masks[ui][1][0], eq_params={e: masks[ui][1][1 + k] for k, e in enumerate(eqs)}))
            if pde:
                kw["params"] = jinns.parameters.Params(nn_params=pd.nn_params[n], eq_params=pd.eq_params)
            dkd[n] = DKC(**kw)
        if pde:
            return L.quiet(jinns.loss.SystemLossPDE, u_dict=us, dynamic_loss_dict={"u": SysN(), "v": SysN()}, derivative_keys_dict=dkd,
                           initial_condition_fun_dict=ic_pde,
                           loss_weights=jinns.loss.LossWeightsPDEDict(dyn_loss=0.0, norm_loss=None, boundary_loss=None, initial_condition=1.0, observations=1.0), params_dict=pd)
        return L.quiet(jinns.loss.SystemLossODE, u_dict=us, dynamic_loss_dict={"u": SysO(), "v": SysO()}, derivative_keys_dict=dkd,
                       initial_condition_dict=ic_ode,
                       loss_weights=jinns.loss.LossWeightsODEDict(dyn_loss=0.0, initial_condition=1.0, observations=1.0), params_dict=pd)

    def fg(loss):
        g = jax.grad(lambda p: loss.evaluate(p, batch)[0])(pd)
        return [np.concatenate([np.ravel(x) for x in jax.tree_util.tree_leaves(g.nn_params[n])]) for n in names] + [np.asarray(g.eq_params[e]).reshape(1) for e in eqs]

    def term_grads(ui, ti):
        """reference: gradient of term ti of the *single* loss of unknown ui (all groups selected), laid out like fg()"""
        n_ = names[ui]
        p1 = jinns.parameters.Params(nn_params=pd.nn_params[n_], eq_params=pd.eq_params)
        if pde:
            dk1 = DerivativeKeysPDENonStatio.from_str(params=p1, dyn_loss="both", initial_condition="both", observations="both")
            single = L.quiet(jinns.loss.LossPDENonStatio, u=us[n_], dynamic_loss=None, initial_condition_fun=ic_pde[n_], derivative_keys=dk1, params=p1)
        else:
            dk1 = DerivativeKeysODE.from_str(params=p1, dyn_loss="both", initial_condition="both", observations="both")
            single = L.quiet(jinns.loss.LossODE, u=us[n_], dynamic_loss=None, initial_condition=ic_ode[n_], derivative_keys=dk1, params=p1)
        sb = L.make_batch(kind, pts, obs=obs[n_])
        g = jax.grad(lambda p: single.evaluate(p, sb)[1][terms[ti]])(p1)
        out = [np.zeros_like(np.concatenate([np.ravel(x) for x in jax.tree_util.tree_leaves(pd.nn_params[m])])) for m in names]
        out[ui] = np.concatenate([np.ravel(x) for x in jax.tree_util.tree_leaves(g.nn_params)])
        return out + [np.asarray(g.eq_params[e]).reshape(1) for e in eqs]

    v = []
    ref = {(ui, ti): term_grads(ui, ti) for ui in range(2) for ti in range(2)}
    if any(not np.any(np.abs(ref[k][2 + j]) > 1e-8) for k in ref for j in range(len(eqs))):
        raise RuntimeError("vacuous system reference gradients")
    n = 0
    cube = list(itertools.product([True, False], repeat=2 * nG))
    for ui in range(2):
        for bits in cube:
            # the other unknown keeps a *different* fixed specification (everything selected), so that keys taken from the
            # wrong unknown are visible
            m = [[[True] * nG for _ in range(2)] for _ in range(2)]
            m[ui] = [list(bits[:nG]), list(bits[nG:])]
            got = fg(mk(m))
            n += 1
            exp = [np.zeros_like(x) for x in got]
            for uj in range(2):
                for ti in range(2):
                    r = ref[(uj, ti)]
                    if m[uj][ti][0]:
                        exp[uj] = exp[uj] + r[uj]
                    for k in range(len(eqs)):
                        if m[uj][ti][1 + k]:
                            exp[2 + k] = exp[2 + k] + r[2 + k]
            for gi, (a_, b_) in enumerate(zip(got, exp)):
                if np.abs(a_ - b_).max() > 1e-10 * (1 + np.abs(b_).max()):
                    v.append(V(site, "per_unknown_term_gradient_not_routed_by_its_derivative_keys", f"unknown {names[ui]} masks {m[ui]} (other unknown: all selected) group {gi}: got {a_[:3]} expected {b_[:3]}"))
                    break
            if v:
                break
        if v:
            break
    return dict(viol=v, evals=n, nontrivial=[f"system|{kind}|{i}" for i in range(n)], outcomes=[f"system|{kind}|{n}"], sample={"kind": site, "masks": n})


def run_case(case):
    return {"cube": run_cube, "strings": run_strings, "system": run_system, "nonfinite": run_nonfinite}[case["type"]](case)
