"""C03 — total loss is the sum of its terms; the dynamic term is the batch-mean weighted
residual MSE.

(i) every subset of configurable terms per loss kind: total == sum(terms), unconfigured
terms == 0 exactly, dynamic term == NumPy formula from exact jets;
(ii) dynamic term alone: kind x residual components 1..3 x batch size 1..4 x weights
{1, 2.5, per-component}: value == formula, every permutation of the batch, halves,
weight scaling."""
from __future__ import annotations

import itertools
import warnings

import numpy as np
import jax
import jax.numpy as jnp
import jinns

from jmc.core import losslib as L
from jmc.core.refmodels import V

ID = "C03"
LEVEL = "exploration"
X64 = True
RULE = (
    "(i) loss kind {ODE, stationary d=1,2, non-stationary d=1,2} x every subset of its configurable terms (2^3 / 2^4 / 2^5) x 2 "
    "variants (residual components, batch size); (ii) kind x residual components {1,2,3} x batch size {1..4} x weight {1, 2.5, "
    "per-component vector} with all b! batch permutations, the two halves and a rescaled weight.  Non-trivial = at least one "
    "configured term with non-zero value; distinct by configuration."
)
ASSUMPTIONS = [
    "user equations are analytic residual maps built from u, its first derivatives and two equation parameters on a polynomial network; oracle from exact polynomial jets",
    "x64; 1e-10 relative on formula comparisons, 1e-12 on sum/permutation identities, exact zero for unconfigured terms",
]
BOUNDS = {"quick": {"dims": [1, 2], "bmax": 4}, "thorough": {"dims": [1, 2, 3], "bmax": 5}}
TERMS = {"ode": ["dyn", "ic", "obs"], "statio": ["dyn", "norm", "bc", "obs"], "nonstatio": ["dyn", "norm", "bc", "obs", "ic"]}
KEYS = {"dyn": "dyn_loss", "ic": "initial_condition", "obs": "observations", "norm": "norm_loss", "bc": "boundary_loss"}


def cases(tier, seed):
    B = BOUNDS[tier]
    out = []
    for kind in ("ode", "statio", "nonstatio"):
        for d in ([0] if kind == "ode" else B["dims"]):
            T = TERMS[kind]
            for r in range(len(T) + 1):
                for sub in itertools.combinations(T, r):
                    for variant in (0, 1):
                        out.append(dict(type="subset", kind=kind, d=d, terms=list(sub), ncomp=1 + variant * 2, b=2 + variant, n_out=1 + variant))
            for ncomp in (1, 2, 3):
                for b in range(1, B["bmax"] + 1):
                    for w in ("one", "scalar", "scalar0d", "vector", "zero", "int"):
                        if w in ("zero", "int") and (b > 2 or ncomp == 2):
                            continue
                        out.append(dict(type="dyn", kind=kind, d=d, ncomp=ncomp, b=b, weight=w, n_out=2 if ncomp == 3 else 1))
        # large batches (the mean runs over every row whatever the size: 2049 and 5000 are not multiples of a power of two)
        for b in ((2049,) if tier == "quick" else (2049, 3000, 5000)):
            out.append(dict(type="dyn", kind=kind, d=B["dims"][0] if kind != "ode" else 0, ncomp=2, b=b, weight="scalar", n_out=1, big=True))
    out.sort(key=lambda c: (c["type"] != "subset", len(c.get("terms", [])), c["b"]))
    return out


def build(case, terms, weight=1.0):
    kind, d, n_out = case["kind"], case["d"], case["n_out"]
    u, coef, expo = L.make_u(kind, d, n_out, deg=2)
    params = jinns.parameters.Params(nn_params=u.init_params(), eq_params={"b": jnp.asarray(-0.4), "a": jnp.asarray(0.7)})  # non-alphabetical insertion
    dyn = L.user_eq(kind, case["ncomp"]) if "dyn" in terms else None
    nv = L.nvar_of(kind, d)
    pts = L.points(case["b"], nv)
    kw = {}
    border = None
    if kind == "ode":
        lw = jinns.loss.LossWeightsODE(dyn_loss=weight, initial_condition=1.5, observations=0.5)
        loss = L.quiet(jinns.loss.LossODE, u=u, dynamic_loss=dyn, initial_condition=(0.3, jnp.asarray([0.2] * n_out)) if "ic" in terms else None,
                       loss_weights=lw, params=params)
    else:
        if "norm" in terms:
            kw.update(norm_samples=jnp.asarray(L.points(3, d, salt=4)), norm_int_length=2.0)
        if "bc" in terms:
            if kind == "statio":
                kw.update(omega_boundary_fun=lambda dx: 0.25, omega_boundary_condition="dirichlet")
            else:
                kw.update(omega_boundary_fun=lambda t, dx: 0.25, omega_boundary_condition="dirichlet")
            nb = 1 if d == 1 else 2
            if kind == "statio":
                border = np.stack([L.points(nb, d, salt=f) for f in range(2 * d)], axis=-1)
            else:
                border = np.stack([L.points(nb, 1 + d, salt=f) for f in range(2 * d)], axis=-1)
        if kind == "statio":
            lw = jinns.loss.LossWeightsPDEStatio(dyn_loss=weight, norm_loss=0.8, boundary_loss=1.2, observations=0.5)
            loss = L.quiet(jinns.loss.LossPDEStatio, u=u, dynamic_loss=dyn, loss_weights=lw, params=params, **kw)
        else:
            lw = jinns.loss.LossWeightsPDENonStatio(dyn_loss=weight, norm_loss=0.8, boundary_loss=1.2, observations=0.5, initial_condition=1.5)
            if "ic" in terms:
                kw.update(initial_condition_fun=lambda x: jnp.sin(x[0]) * jnp.ones((n_out,)))
            loss = L.quiet(jinns.loss.LossPDENonStatio, u=u, dynamic_loss=dyn, loss_weights=lw, params=params, **kw)
    obs = None
    if "obs" in terms:
        obs = {"pinn_in": jnp.asarray(L.points(case["b"], nv, salt=7)), "val": jnp.asarray(np.linspace(0.1, 0.9, case["b"] * n_out).reshape(case["b"], n_out)), "eq_params": {}}
        if case.get("ncomp", 1) == 3:
            # the observations come with an observed column of 'b' (used by the equation): it concerns the observation term only
            obs["eq_params"] = {"b": jnp.asarray(np.linspace(2.0, 3.0, case["b"])[:, None])}
    batch = L.make_batch(kind, pts, border=border, obs=obs)
    return loss, params, batch, (coef, expo, pts)


def dyn_formula(case, coef, expo, pts, w):
    r = L.residual_exact(case["kind"], case["d"], case["ncomp"], coef, expo, pts, 0.7, -0.4)
    return float(np.mean(np.sum(np.asarray(w) * r**2, axis=-1)))


def close(a, b, tol):
    return abs(a - b) <= tol * (1 + abs(b))


def run_case(case):
    site = f"Loss{ {'ode': 'ODE', 'statio': 'PDEStatio', 'nonstatio': 'PDENonStatio'}[case['kind']] }"
    v = []
    if case["type"] == "subset":
        terms = case["terms"]
        v = []
        loss, params, batch, (coef, expo, pts) = build(case, terms, 1.7)
        total, td = L.jit_eval(loss, params, batch)
        total, td = float(total), {k: float(x) for k, x in td.items()}
        plain = None
        if batch.obs_batch_dict is not None and batch.obs_batch_dict["eq_params"]:
            # the same batch without the observed column, evaluated before and after the eager call that carries the column
            import equinox as eqx
            plain_batch = eqx.tree_at(lambda b_: b_.obs_batch_dict, batch, dict(batch.obs_batch_dict, eq_params={}))
            plain = {k: float(x) for k, x in L.jit_eval(loss, params, plain_batch)[1].items()}
        etotal, etd = loss.evaluate(params, batch)  # eager: Python-level dictionary order is visible here
        etd = {k: float(x) for k, x in etd.items()}
        if plain is not None:
            again = {k: float(x) for k, x in loss.evaluate(params, plain_batch)[1].items()}
            if any(abs(again[k] - plain[k]) > 1e-12 * (1 + abs(plain[k])) for k in plain):
                v.append(V(site, "terms_depend_on_an_earlier_evaluation_with_an_observed_parameter_column", f"terms {terms}: before {plain} after {again}"))
        if any(abs(etd[k] - td[k]) > 1e-12 * (1 + abs(td[k])) for k in td):
            v.append(V(site, "eager_terms_differ_from_jitted_terms", f"terms {terms}: eager {etd} jit {td}"))
        if not close(total, sum(td.values()), 1e-12):
            v.append(V(site, "total_is_not_the_sum_of_returned_terms", f"terms {terms}: total {total} sum {sum(td.values())} {td}"))
        for t in TERMS[case["kind"]]:
            if t not in terms and td.get(KEYS[t], 0.0) != 0.0:
                v.append(V(site, "unconfigured_term_is_not_zero", f"configured {terms}: {KEYS[t]} = {td[KEYS[t]]}"))
            if t in terms and KEYS[t] not in td:
                v.append(V(site, "configured_term_missing", KEYS[t]))
        for k_ in td:
            if k_ not in [KEYS[t] for t in TERMS[case["kind"]]] and td[k_] != 0.0:
                v.append(V(site, "unconfigured_term_is_not_zero", f"{k_} = {td[k_]}"))
        if "dyn" in terms:
            exp = dyn_formula(case, coef, expo, pts, 1.7)
            if not close(td["dyn_loss"], exp, 1e-10):
                v.append(V(site, "dynamic_term_differs_from_batch_mean_weighted_residual_mse", f"terms {terms}: got {td['dyn_loss']} expected {exp}"))
        nz = [k_ for k_, x in td.items() if x != 0.0]
        return dict(viol=v, evals=1, nontrivial=[str(case)] if nz else [], outcomes=[f"{case['kind']}|{sorted(nz)}"], sample={"case": case, "terms_returned": td})
    # ---- dynamic term alone
    ncomp, b = case["ncomp"], case["b"]
    # "zero": a term switched off by a weight that is exactly the Python number 0.0 ; "int": a Python integer
    w = {"one": 1.0, "scalar": 2.5, "scalar0d": jnp.asarray(2.5), "vector": jnp.asarray([1.0, 0.5, 2.0][:ncomp]), "zero": 0.0, "int": 2}[case["weight"]]
    loss, params, batch, (coef, expo, pts) = build(case, ["dyn"], w)
    _, td = L.jit_eval(loss, params, batch)
    val = float(td["dyn_loss"])
    exp = dyn_formula(case, coef, expo, pts, np.asarray(w))
    n = 2
    if not close(val, exp, 1e-10):
        v.append(V(site, "dynamic_term_differs_from_batch_mean_weighted_residual_mse", f"ncomp={ncomp} b={b} weight={case['weight']}: got {val} expected {exp}"))
    val_eager = float(loss.evaluate(params, batch)[1]["dyn_loss"])  # weights are Python numbers here, traced leaves under jit
    if not close(val_eager, exp, 1e-10):
        v.append(V(site, "dynamic_term_differs_from_batch_mean_weighted_residual_mse(eager)", f"ncomp={ncomp} b={b} weight={case['weight']}: got {val_eager} expected {exp}"))
    perms = itertools.permutations(range(b)) if not case.get("big") else [tuple(range(b))[::-1], tuple(range(1, b)) + (0,)]
    for perm in perms:
        pb = L.make_batch(case["kind"], pts[list(perm)])
        pv = float(L.jit_eval(loss, params, pb)[1]["dyn_loss"])
        n += 1
        if not close(pv, val, 1e-12):
            v.append(V(site, "dynamic_term_not_invariant_under_batch_permutation", f"perm {perm}: {pv} vs {val}"))
            break
    if b % 2 == 0:
        h = b // 2
        v1 = float(L.jit_eval(loss, params, L.make_batch(case["kind"], pts[:h]))[1]["dyn_loss"])
        v2 = float(L.jit_eval(loss, params, L.make_batch(case["kind"], pts[h:]))[1]["dyn_loss"])
        n += 2
        if not close(0.5 * (v1 + v2), val, 1e-12):
            v.append(V(site, "dynamic_term_is_not_the_average_of_its_halves", f"{v1}, {v2} vs {val}"))
    import equinox as eqx
    loss2 = eqx.tree_at(lambda l: l.loss_weights.dyn_loss, loss, 3.0 * jnp.asarray(w))
    sv = float(L.jit_eval(loss2, params, batch)[1]["dyn_loss"])
    n += 1
    if not close(sv, 3.0 * val, 1e-12):
        v.append(V(site, "dynamic_term_not_linear_in_its_weight", f"{sv} vs 3*{val}"))
    return dict(viol=v, evals=n, nontrivial=[str(case)] if (exp != 0 or case["weight"] == "zero") else [], outcomes=[f"{case['kind']}|{round(exp, 6)}"], sample={"case": case, "value": val})
