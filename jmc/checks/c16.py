"""C16 — residual-adaptive refinement follows its schedule and never exceeds capacity.

Machine: state = (real RAR generator, iteration i, integer schedule model);
ops: T = trigger_rar(i, ...) then i += 1 ; B = get_batch.  'solve-like' cases run the
word (B T)^H past exhaustion, 'words' cases run every word over {B, T} up to the depth
bound, 'solve' cases run the real jinns.solve and compare the returned generator."""
from __future__ import annotations

import warnings

import numpy as np
import jax
import jinns
from jinns.solver._rar import init_rar, trigger_rar

from jmc.core import rarlib
from jmc.core.explorer import explore
from jmc.core.refmodels import V

ID = "C16"
LEVEL = "model_checking"
X64 = False
RULE = (
    "complete enumeration of generator kind {ODE, stationary 1-D/2-D, non-stationary 1-D/2-D} x start {0,1,3} x period {1,2,3} x "
    "(n_start, selected, capacity) x (time count = or != space count) ; per configuration the solve-like history (B T)^H with "
    "H = start + period*(capacity steps + 2) (past exhaustion), every word over {B,T} up to the depth bound, and the real "
    "jinns.solve on a subset.  Non-trivial = at least one refinement step expected within the horizon; distinct by configuration+mode."
)
ASSUMPTIONS = [
    "analytic affine residual landscape; the schedule does not depend on residual values",
    "2 PRNG keys per configuration (one derived from VERIF_SEED)",
    "a resumed solve restarts its iteration counter at 0 (documented behaviour of solve), so schedules are checked within one call",
]
BOUNDS = {"quick": {"word_depth": 6, "keys": 1}, "thorough": {"word_depth": 9, "keys": 2}}

SIZES = [(2, 1, 4), (2, 2, 6), (3, 2, 8), (2, 2, 5)]  # (n_start, selected, capacity)


def _cfg(kind, dim, start, every, st, sx, key, variant):
    cfg = dict(kind=kind, dim=dim, start=start, every=every, key=key, wt=1.3, wx=[3.0, 0.1], b=-0.7, c=0.25)
    if kind in ("ode", "nonstatio"):
        cfg.update(nt_start=st[0], sel_t=st[1], nt=st[2], cand_t=st[1] + 3, bt=1 if variant else 2)
    if kind in ("statio", "nonstatio"):
        cfg.update(n_start=sx[0], sel_x=sx[1], n=sx[2], cand_x=sx[1] + 2, bx=2 if variant else 1)
    return cfg


def cases(tier, seed):
    B = BOUNDS[tier]
    keys = [seed + 71, 17][: B["keys"]]
    out = []
    for (kind, dim) in (("ode", 0), ("statio", 2), ("nonstatio", 2), ("statio", 1), ("nonstatio", 1)):
        for start in (0, 1, 3):
            for every in (1, 2, 3):
                for si, st in enumerate(SIZES):
                    # non-stationary: equal and different time/space sizes
                    sxs = [st, SIZES[(si + 1) % len(SIZES)]] if kind == "nonstatio" else [st]
                    for sx in sxs:
                        for ki, key in enumerate(keys):
                            if dim == 1 and (si > 1 or ki > 0):
                                continue
                            cfg = _cfg(kind, dim, start, every, st, sx, key, (si + start) % 2)
                            out.append(dict(type="solvelike", cfg=cfg))
                            if (start, every) in ((0, 1), (1, 2), (3, 3), (0, 3)) and ki == 0 and si in (0, 3):
                                out.append(dict(type="solve", cfg=cfg))
    # rar_parameters written in another key order, and generators that were drawn from (rebuilt as pytrees) before the
    # refinement is initialised -- as happens when a generator is reused between two solve calls
    for (start, every) in ((0, 1), (1, 2)):
        for variant in ("omega_first", "pre_draw", "resolve"):
            cfgv = _cfg("nonstatio", 2, start, every, SIZES[2], SIZES[0], keys[0], 1)
            if variant == "omega_first":
                out.append(dict(type="solvelike", cfg=dict(cfgv, rar_order="omega_first")))
            elif variant == "pre_draw":
                out.append(dict(type="solvelike", cfg=cfgv, pre_draw=True))
            else:
                out.append(dict(type="solve", cfg=cfgv, pre_draw=True))
    # the same schedule with a (one-unknown, one-equation) system loss
    for (kind, dim) in (("ode", 0), ("statio", 2), ("nonstatio", 2)):
        for (start, every) in ((0, 1), (1, 2)):
            st = SIZES[2]
            sx = SIZES[1] if kind == "nonstatio" else st
            out.append(dict(type="solvelike", cfg=dict(_cfg(kind, dim, start, every, st, sx, keys[0], 0), system=True)))
    for (kind, dim) in (("ode", 0), ("statio", 2), ("nonstatio", 2)):
        for (start, every) in ((0, 1), (1, 2), (2, 1), (0, 2)):
            for si in (0, 3):
                st = SIZES[si]
                sx = SIZES[(si + 1) % len(SIZES)] if kind == "nonstatio" else st
                out.append(dict(type="words", cfg=_cfg(kind, dim, start, every, st, sx, keys[0], si % 2), depth=B["word_depth"]))
    out.sort(key=lambda c: (c["type"] != "solvelike", c["cfg"]["dim"] == 1, c["cfg"]["start"] + c["cfg"]["every"]))
    return out


def horizon(cfg):
    steps = []
    if cfg["kind"] in ("ode", "nonstatio"):
        steps.append((cfg["nt"] - cfg["nt_start"]) // cfg["sel_t"])
    if cfg["kind"] in ("statio", "nonstatio"):
        steps.append((cfg["n"] - cfg["n_start"]) // cfg["sel_x"])
    return cfg["start"] + cfg["every"] * (min(steps) + 2)


def run_case(case):
    cfg = case["cfg"]
    site = f"rar/{cfg['kind']}{cfg['dim'] or ''}" + ("/system_loss" if cfg.get("system") else "")
    with warnings.catch_warnings():
        warnings.simplefilter("ignore")
        g0, loss, params, _ = rarlib.build(cfg, record=False)
    if case.get("pre_draw"):
        g0, _ = g0.get_batch()  # the generator has been flattened / rebuilt once (dicts come back with sorted keys)
    nontriv_key = f"{case['type']}|{case.get('pre_draw')}|{ {k: v for k, v in cfg.items() if k != 'key'} }"
    H = horizon(cfg)

    if case["type"] == "solve":
        import optax

        sched = rarlib.Schedule(cfg)
        for i in range(H):
            if sched.expect_step(i):
                sched.J += 1
        out = jinns.solve(n_iter=H, init_params=params, data=g0, loss=loss, optimizer=optax.sgd(1e-3), verbose=False)
        g = out[3]
        v = rarlib.check_counts(site + "/solve", cfg, rarlib.View(cfg, g), sched, H - 1, None)
        return dict(viol=v, evals=1, states=H + 1, transitions=H, traces=1, nontrivial=[nontriv_key] if sched.J else [],
                    outcomes=[str(rarlib.View(cfg, g).counts())], sample={"type": "solve", "cfg": cfg, "n_iter": H, "steps_expected": sched.J})

    g0, t_fun, f_fun = init_rar(g0)

    def step(state, op, hist):
        g, i, sched = state
        if op == "B":
            before = rarlib.View(cfg, g).counts()
            g2, _ = g.get_batch()
            v = []
            if rarlib.View(cfg, g2).counts() != before:
                v.append(V(site, "draw_changed_refinement_state", f"{before} -> {rarlib.View(cfg, g2).counts()}"))
            # a reshuffle happens as soon as all *active* points have been served: a batch never starts beyond them
            for name, cur, act in (("times", getattr(g2, "curr_time_idx", None), before[0]), ("omega", getattr(g2, "curr_omega_idx", None), before[1])):
                if act is not None and cur is not None and int(cur) >= act:
                    v.append(V(f"{site}/{name}", "batch_starts_beyond_the_active_points", f"cursor {int(cur)} with {act} active point(s)"))
            return (g2, i, sched), v
        s2 = sched.copy()
        exp = s2.expect_step(i)
        if exp:
            s2.J += 1
        _, _, g2 = trigger_rar(i, loss, params, g, t_fun, f_fun)
        v = rarlib.check_counts(site, cfg, rarlib.View(cfg, g2), s2, i, exp)
        return (g2, i + 1, s2), v

    def canon(state):
        g, i, sched = state
        return (i, rarlib.View(cfg, g).counts())

    if case["type"] == "solvelike":
        word = ["B", "T"] * H
        ops_of = lambda s, h: [word[len(h)]] if len(h) < len(word) else []
        st = explore((g0, 0, rarlib.Schedule(cfg)), ops_of, step, canon, len(word), outcome=lambda s: str(canon(s)))
    else:
        st = explore((g0, 0, rarlib.Schedule(cfg)), lambda s, h: ["T", "B"], step, canon, case["depth"], outcome=lambda s: str(canon(s)))
    # non-trivial: at least one step expected within the horizon
    sched = rarlib.Schedule(cfg)
    nsteps = 0
    for i in range(H if case["type"] == "solvelike" else case["depth"]):
        if sched.expect_step(i):
            sched.J += 1
            nsteps += 1
    return st.as_result({"nontrivial": [nontriv_key] if nsteps else [], "sample": {"type": case["type"], "cfg": cfg, "ops": "".join(st.sample_trace or [])}})
