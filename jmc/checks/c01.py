"""C01 — differential operators return the mathematical operator's value.

Bounded-exhaustive: operator x spatial dimension x +-time x number of outputs; within a
case, every (component, monomial of total degree <= 3 in (t, x)) basis field (other
components carry fixed decoy polynomials) x every point of a tensor grid, through the
real operators on a PolyNet wrapped by the real PINN; oracle = exact polynomial
calculus w.r.t. the spatial variables only."""
from __future__ import annotations

import itertools
from fractions import Fraction

import numpy as np
import jax
import jax.numpy as jnp
import equinox as eqx
import jinns
import jinns.loss as JL

from jmc.core import nets
from jmc.core.poly import Poly, laplacian, divergence, advection
from jmc.core.refmodels import V

ID = "C01"
LEVEL = "exploration"
X64 = True
RULE = (
    "complete enumeration of operator {laplacian, divergence, vector laplacian (n_out 1..3, also != d), advection via the "
    "Navier-Stokes residual and directly} x d in 1..dmax x {no time, time} ; per case every (component, monomial of total degree "
    "<= 3) basis field with decoy polynomials in the other components (advection: every basis field and every pairwise sum of the "
    "degree <= 2 basis) x every point of a tensor grid; each evaluated with two unrelated eq_params sets (bit-identical required). "
    "Non-trivial = the exact operator value of the field is not identically zero; distinct by (operator, d, time, n_out, component, monomial)."
)
ASSUMPTIONS = [
    "(L) a linear operator is determined on polynomial fields by its values on the monomial basis; (Q) a quadratic one by basis elements and pairwise sums",
    "(P) polynomials of degree <= 3 per variable agreeing on a 4-point-per-axis tensor grid are identical (quick: 3 points per axis, degree-3 terms still distinguished by value)",
    "extension to smooth non-polynomial fields by the 2-jet argument is an argument, not an enumeration",
    "x64, tolerance 1e-9 relative",
]
BOUNDS = {"quick": {"dmax": 4, "grid": 3, "deg": 3}, "thorough": {"dmax": 4, "grid": 4, "deg": 3}}
VALS = [-1.3, 0.7, 1.9, 0.45]


def cases(tier, seed):
    B = BOUNDS[tier]
    out = []
    for d in range(1, B["dmax"] + 1):
        for time in (False, True):
            out.append(dict(op="laplacian", d=d, time=time, n_out=1, grid=B["grid"], deg=B["deg"]))
            out.append(dict(op="divergence", d=d, time=time, n_out=d, grid=B["grid"], deg=B["deg"]))
            for n_out in (1, 2, 3):
                out.append(dict(op="vector_laplacian", d=d, time=time, n_out=n_out, grid=B["grid"], deg=B["deg"]))
    out.append(dict(op="advection_ns", d=2, time=False, n_out=2, grid=B["grid"], deg=2))
    out.append(dict(op="advection", d=2, time=False, n_out=2, grid=B["grid"], deg=2))
    out.append(dict(op="advection", d=2, time=True, n_out=2, grid=B["grid"], deg=2))
    out.sort(key=lambda c: (c["d"] + c["time"], c["n_out"]))
    return out


def grid_points(nvar, k):
    axes = [[VALS[j] + 0.11 * v for j in range(k)] for v in range(nvar)]
    return np.array(list(itertools.product(*axes)), dtype=np.float64)


def decoy(c, m):
    return Fraction((c + 2) * ((m % 5) + 1), 7) * (-1 if (c + m) % 3 == 0 else 1)


def run_case(case):
    op, d, time, n_out = case["op"], case["d"], case["time"], case["n_out"]
    nvar = d + (1 if time else 0)
    spatial = list(range(1, nvar)) if time else list(range(nvar))
    expo = nets.monomials(nvar, case["deg"])
    M = len(expo)
    eq_type = "nonstatio_PDE" if time else "statio_PDE"
    u = nets.poly_pinn(eq_type, np.zeros((n_out, M)), expo)
    pts = grid_points(nvar, case["grid"])
    site = f"operators/{op}"

    # ------------------------------------------------------------ fields (coefficient matrices) and exact values
    fields, labels, exact = [], [], []
    if op.startswith("advection"):
        basis = [(c, m) for c in range(2) for m in range(M)]
        combos = [(b,) for b in basis] + list(itertools.combinations(basis, 2))
        for combo in combos:
            coef = np.zeros((n_out, M))
            for (c, m) in combo:
                coef[c, m] += 1.0
            ps = [Poly(nvar, {expo[m]: Fraction(coef[c, m]).limit_denominator(1) for m in range(M) if coef[c, m]}) for c in range(2)]
            ex = advection(ps, spatial)
            fields.append(coef)
            labels.append(str(combo))
            exact.append(np.stack([e.eval_many(pts) for e in ex], axis=-1))
    else:
        for c in range(n_out):
            for m in range(M):
                coefF = [[decoy(cc, mm) for mm in range(M)] for cc in range(n_out)]
                coefF[c] = [Fraction(int(mm == m)) for mm in range(M)]
                ps = [Poly(nvar, {expo[mm]: coefF[cc][mm] for mm in range(M)}) for cc in range(n_out)]
                if op == "laplacian":
                    ex = laplacian(ps[0], spatial).eval_many(pts)
                elif op == "divergence":
                    ex = divergence(ps, spatial).eval_many(pts)
                else:
                    ex = np.stack([laplacian(p, spatial).eval_many(pts) for p in ps], axis=-1)
                fields.append(np.array([[float(x) for x in row] for row in coefF]))
                labels.append(f"component {c} monomial {expo[m]}")
                exact.append(ex)
        if time:
            # stiff-in-time fields: 1e10 * t^2 added to every component.  The spatial operators must return exactly the
            # same values (t is held fixed); differentiating in t and cancelling afterwards leaves rounding residue
            it2 = expo.index(tuple([2] + [0] * (nvar - 1)))
            nb = len(fields)
            for k in range(0, nb, max(1, nb // 6)):
                stiff = fields[k].copy()
                stiff[:, it2] += 1e10
                fields.append(stiff)
                labels.append(labels[k] + " + 1e10 t^2")
                exact.append(exact[k])
    fields = jnp.asarray(np.stack(fields))
    exact = np.stack(exact)  # (F, P[, n_out])

    # ------------------------------------------------------------ the real operators
    nn0 = u.init_params()

    def make_params(coef, eqp):
        return jinns.parameters.Params(nn_params=eqx.tree_at(lambda mm: mm.coef, nn0, coef), eq_params=eqp)

    if op == "advection_ns":
        pnet = nets.poly_pinn("statio_PDE", np.zeros((1, M)), expo)
        ns = JL.NavierStokes2DStatio(u_key="u", p_key="p")

        def kern(coef, z, eqp):
            pd = jinns.parameters.ParamsDict(nn_params={"u": eqx.tree_at(lambda mm: mm.coef, nn0, coef), "p": pnet.init_params()}, eq_params=eqp)
            return ns.evaluate(z, {"u": u, "p": pnet}, pd)
        eqps = [{"rho": jnp.asarray(1.0), "nu": jnp.asarray(0.0)}, {"rho": jnp.asarray(1.0), "nu": jnp.asarray(0.0), "zeta": jnp.ones(3) * 5.0}]
    else:
        if op == "advection":
            from jinns.loss import _operators as OPS
            fn = getattr(OPS, "_u_dot_nabla_times_u_rev", None)
            if fn is None:
                return dict(viol=[], evals=0, nontrivial=[], outcomes=["advection operator not exposed under its anchored name: direct route skipped"])
            call = lambda t, x, p: fn(t, x, u, p)
        elif op == "laplacian":
            call = lambda t, x, p: JL._laplacian_rev(t, x, u, p)
        elif op == "divergence":
            call = lambda t, x, p: JL._div_rev(t, x, u, p)
        else:
            call = lambda t, x, p: JL._vectorial_laplacian(t, x, u, p, u_vec_ndim=n_out)

        def kern(coef, z, eqp):
            p = make_params(coef, eqp)
            if time:
                return call(z[:1], z[1:], p)
            return call(None, z, p)
        eqps = [{"nu": jnp.asarray(0.3)}, {"nu": jnp.asarray(7.0), "zeta": jnp.ones(3) * 5.0, "D": jnp.asarray(-2.0)}]

    zp = jnp.asarray(pts)
    res = []
    for eqp in eqps:
        f = jax.jit(jax.vmap(jax.vmap(lambda coef, z, eqp=eqp: kern(coef, z, eqp), in_axes=(None, 0)), in_axes=(0, None)))
        # evaluated in chunks of fields (same compiled function, last chunk padded) to bound the memory of the big cases
        ch = len(fields) if len(fields) * len(zp) <= 40000 else max(8, 40000 // len(zp))
        parts = []
        for a in range(0, len(fields), ch):
            blk = fields[a:a + ch]
            npad = ch - len(blk)
            if npad:
                blk = jnp.concatenate([blk, jnp.zeros((npad,) + blk.shape[1:], blk.dtype)])
            parts.append(np.asarray(f(blk, zp))[: ch - npad])
        res.append(np.concatenate(parts))
    got = res[0].reshape(exact.shape)
    viol = []
    if not np.array_equal(res[0], res[1]):
        viol.append(V(site, "value_depends_on_unrelated_parameters", f"d={d} time={time} max diff {np.max(np.abs(res[0] - res[1]))}"))
    err = np.abs(got - exact) / (1.0 + np.abs(exact))
    bad = np.argwhere(err > 1e-9)
    if len(bad):
        fidx = int(bad[0][0])
        pidx = int(bad[0][1])
        viol.append(V(site, "value_differs_from_exact_operator",
                      f"d={d} time={time} n_out={n_out} field [{labels[fidx]}] at point {pts[pidx].tolist()} (order: {'t,' if time else ''}x): got {got[fidx, pidx].tolist()} exact {exact[fidx, pidx].tolist()}; {len(set(int(b[0]) for b in bad))} field(s) affected"))
    # eager spot checks: the same operators called directly (no jit, no vmap), unrelated parameters given as Python numbers
    if op != "advection_ns" and not viol:
        eqp_py = {"nu": 0.3, "k": 2}
        for fi in sorted({0, len(labels) // 2, len(labels) - 1}):
            for pi in (0, len(pts) - 1):
                e = np.asarray(kern(fields[fi], zp[pi], eqp_py))
                ex = exact[fi, pi]
                if np.any(np.abs(e - ex) > 1e-9 * (1 + np.abs(ex))):
                    viol.append(V(site, "eager_value_differs_from_exact_operator", f"d={d} time={time} n_out={n_out} field [{labels[fi]}] point {pts[pi].tolist()}: got {e.tolist()} exact {np.asarray(ex).tolist()}"))
    # the number of components written in other valid integer forms (NumPy integers, as np.prod / array sizes give them;
    # the documented default None when it equals the space dimension)
    if op == "vector_laplacian" and not viol:
        forms = [("np.int64", np.int64(n_out)), ("np.int32", np.int32(n_out))] + ([("None", None)] if n_out == d else [])
        fi, pi = len(labels) - 1, len(pts) - 1
        p_ = make_params(fields[fi], {"nu": 0.3})
        for fname, form in forms:
            z = zp[pi]
            e = np.asarray(JL._vectorial_laplacian(z[:1], z[1:], u, p_, u_vec_ndim=form) if time else JL._vectorial_laplacian(None, z, u, p_, u_vec_ndim=form))
            ex = np.asarray(exact[fi, pi])
            if e.reshape(-1).shape != ex.reshape(-1).shape or np.any(np.abs(e.reshape(-1) - ex.reshape(-1)) > 1e-9 * (1 + np.abs(ex.reshape(-1)))):
                viol.append(V(site, "value_depends_on_the_integer_form_of_u_vec_ndim", f"d={d} time={time} u_vec_ndim={fname}({n_out}): got {e.tolist()} exact {ex.tolist()}"))
    nontrivial = [f"{op}|{d}|{time}|{n_out}|{labels[i]}" for i in range(len(labels)) if np.any(np.abs(exact[i]) > 0)]
    return dict(viol=viol, evals=int(exact.shape[0] * exact.shape[1]) * 2, nontrivial=nontrivial,
                outcomes=[f"{op}|{d}|{time}|{n_out}|{round(float(np.sum(np.abs(exact))), 6)}"],
                sample={"case": case, "fields": len(labels), "points": len(pts), "example_field": labels[min(5, len(labels) - 1)]})
