"""Runner: enumerates the complete case space of one check, shards it over worker
processes, aggregates measured coverage into evidence/<id>.json, applies the
known-findings file and sets the exit code.

exit 0: property held on everything explored (known findings printed as KNOWN-FINDING)
exit 1: at least one unlisted violation (one "VIOLATION property=<id> replay=<path>" line each)
exit 2: harness error (never together with a VIOLATION line)
"""
from __future__ import annotations

import argparse
import importlib
import json
import multiprocessing as mp
import os
import subprocess
import sys
import time
import traceback

ROOT = os.path.dirname(os.path.dirname(os.path.abspath(__file__)))
REPO = os.path.realpath(os.environ.get("VERIF_REPO", "/repo"))


# --------------------------------------------------------------------------- worker
_MOD = None


def _init_worker(modname, x64):
    global _MOD
    import warnings

    warnings.filterwarnings("ignore")
    # workers report through the result pipe only; jax.debug.print noise from solve goes to /dev/null
    try:
        devnull = os.open(os.devnull, os.O_WRONLY)
        os.dup2(devnull, 1)
    except OSError:
        pass
    import jax

    jax.config.update("jax_enable_x64", bool(x64))
    jax.config.update("jax_platforms", "cpu")
    _MOD = importlib.import_module(modname)


def _jinns_frame(tb):
    """innermost frame of the traceback that lives in the jinns tree under test"""
    site = None
    for fs in traceback.extract_tb(tb):
        fn = os.path.realpath(fs.filename)
        if fn.startswith(os.path.join(REPO, "jinns") + os.sep):
            site = f"{os.path.relpath(fn, REPO)}:{fs.name}"
    return site


def _norm_result(res):
    res = dict(res or {})
    res.setdefault("viol", [])
    res.setdefault("evals", 1)
    res.setdefault("nontrivial", [])
    res.setdefault("states", 0)
    res.setdefault("transitions", 0)
    res.setdefault("traces", 0)
    res.setdefault("outcomes", [])
    res.setdefault("sample", None)
    return res


def run_one(mod, case):
    """run a case; an exception raised from inside jinns on a valid input is a
    violation (kind raises:<Exc>), any other exception is a harness error"""
    try:
        return _norm_result(mod.run_case(case))
    except Exception as e:  # pylint: disable=broad-except
        site = _jinns_frame(e.__traceback__)
        if site is None and type(e).__name__ in ("UnexpectedTracerError",):
            # a traced value escaped through a side effect: the harness functions are pure (shown by the clean tree),
            # so the side effect is in the code under test even though JAX raises at the jit boundary
            site = "jax-transformation-boundary"
        if site is None:
            raise
        r = _norm_result({})
        r["viol"] = [
            {
                "site": site,
                "kind": f"raises:{type(e).__name__}",
                "detail": "".join(traceback.format_exception_only(type(e), e)).strip()[:400],
            }
        ]
        return r


def _work(item):
    idx, case = item
    t0 = time.time()
    try:
        res = run_one(_MOD, case)
        if res["viol"]:
            # determinism: the same case must give the same violation keys twice
            res2 = run_one(_MOD, case)
            # (for exceptions only the exception type has to repeat: hidden state in the code under test may move the
            # frame at which the same error surfaces)
            norm = lambda v: ("*", v["kind"]) if v["kind"].startswith("raises:") else (v["site"], v["kind"])
            k1 = sorted({norm(v) for v in res["viol"]})
            k2 = sorted({norm(v) for v in res2["viol"]})
            if k1 != k2:
                return idx, {"error": f"non-deterministic violation: {k1} vs {k2}", "case": case}
        res["wall"] = time.time() - t0
        return idx, res
    except Exception:  # pylint: disable=broad-except
        return idx, {"error": traceback.format_exc(), "case": case}
    finally:
        _trim_memory()


def _trim_memory(limit_mb=1500):
    """long-lived workers accumulate compiled executables (one per traced program); above the limit the JAX caches are
    dropped -- later cases simply compile again"""
    try:
        with open("/proc/self/statm") as f:
            rss_mb = int(f.read().split()[1]) * os.sysconf("SC_PAGE_SIZE") / 2**20
        if rss_mb > limit_mb:
            import gc
            import jax

            jax.clear_caches()
            gc.collect()
    except Exception:  # pylint: disable=broad-except
        pass


# --------------------------------------------------------------------------- findings
def load_known(pid):
    known = []
    path = os.path.join(ROOT, "KNOWN_FINDINGS.txt")
    if not os.path.exists(path):
        return known
    for line in open(path):
        line = line.strip()
        if not line.startswith("known:"):
            continue
        parts = line.split()
        d = {}
        rest = []
        for p in parts[1:]:
            if "=" in p and not rest and p.split("=", 1)[0] in ("property", "key"):
                k, v = p.split("=", 1)
                d[k] = v
            else:
                rest.append(p)
        if d.get("property") == pid and "key" in d:
            known.append((d["key"], " ".join(rest)))
    return known


def vkey(v):
    return f"{v['site']}:{v['kind']}".replace(" ", "_")


# --------------------------------------------------------------------------- main
def main(argv=None):
    ap = argparse.ArgumentParser()
    ap.add_argument("pid")
    ap.add_argument("--tier", default=os.environ.get("VERIF_TIER", "quick"), choices=["quick", "thorough"])
    ap.add_argument("--replay", default=None)
    ap.add_argument("--workers", type=int, default=None)
    ap.add_argument("--limit", type=int, default=None, help="debug: only the first N cases (evidence says non-exhaustive)")
    ap.add_argument("--no-evidence", action="store_true")
    args = ap.parse_args(argv)

    pid = args.pid.upper()
    seed = int(os.environ.get("VERIF_SEED", "0") or 0)
    modname = f"jmc.checks.{pid.lower()}"
    t0 = time.time()

    # the module under check must come from the tree named by VERIF_REPO
    import jinns  # noqa

    jfile = os.path.realpath(jinns.__file__)
    if not jfile.startswith(REPO + os.sep):
        print(f"HARNESS-ERROR: jinns imported from {jfile}, expected under {REPO}")
        return 2

    mod_meta = importlib.import_module(modname)
    x64 = bool(getattr(mod_meta, "X64", False))

    if args.replay:
        import jax

        jax.config.update("jax_enable_x64", x64)
        rec = json.load(open(args.replay))
        res = run_one(mod_meta, rec["case"])
        for v in res["viol"]:
            print(f"REPLAY-VIOLATION property={pid} key={vkey(v)} detail={v.get('detail')}")
        if not res["viol"]:
            print(f"REPLAY-OK property={pid}")
        return 1 if res["viol"] else 0

    import jax

    jax.config.update("jax_enable_x64", x64)
    cases = list(mod_meta.cases(args.tier, seed))
    total_cases = len(cases)
    if args.limit:
        cases = cases[: args.limit]
    nw = args.workers or int(os.environ.get("VERIF_WORKERS", "0") or 0) or 16
    nw = max(1, min(nw, len(cases), os.cpu_count() or 1))

    results = [None] * len(cases)
    errors = []
    ctx = mp.get_context("spawn")
    # a case may ask for its own floating-point mode ("x64" key); one pool per mode
    for mode in sorted({bool(c.get("x64", x64)) for c in cases}):
        items = [(i, c) for i, c in enumerate(cases) if bool(c.get("x64", x64)) == mode]
        # a worker that dies (e.g. killed by the kernel when memory runs out) must not hang the check: the cases that were
        # lost are run again with half as many workers; a case that kills a lone worker is a harness error
        from concurrent.futures import ProcessPoolExecutor, as_completed
        from concurrent.futures.process import BrokenProcessPool

        todo, w = items, min(nw, len(items))
        while todo:
            lost = []
            ex = ProcessPoolExecutor(max_workers=min(w, len(todo)), mp_context=ctx, initializer=_init_worker, initargs=(modname, mode))
            futs = {ex.submit(_work, it): it for it in todo}
            try:
                for f in as_completed(futs):
                    try:
                        idx, res = f.result()
                    except BrokenProcessPool:
                        lost.append(futs[f])
                        continue
                    if "error" in res:
                        errors.append((idx, res))
                    results[idx] = res
            finally:
                ex.shutdown(wait=False, cancel_futures=True)
            if lost:
                if w == 1:
                    errors.append((lost[0][0], {"error": "a worker process died while running this case alone (out of memory?)", "case": lost[0][1]}))
                    for it in lost:
                        results[it[0]] = {"error": "not run"}
                    break
                w = max(1, w // 2)
                sys.stderr.write(f"note: a worker process died; running {len(lost)} case(s) again with {w} worker(s)\n")
            todo = lost

    if errors:
        for idx, res in errors[:5]:
            print(f"HARNESS-ERROR in case {idx}: {json.dumps(res.get('case'), default=str)[:300]}\n{res['error']}")
        print(f"HARNESS-ERROR: {len(errors)} case(s) failed inside the harness; no verdict")
        return 2

    # ------------------------------------------------------------------ aggregate
    agg = dict(evals=0, states=0, transitions=0, traces=0)
    nontrivial, outcomes, samples = set(), set(), []
    viols = []
    for case, res in zip(cases, results):
        for k in agg:
            agg[k] += int(res[k])
        nontrivial.update(res["nontrivial"])
        outcomes.update(res["outcomes"])
        if res["sample"] is not None and len(samples) < 4:
            samples.append(res["sample"])
        for v in res["viol"]:
            viols.append((case, v))

    known = load_known(pid)
    known_keys = {k for k, _ in known}
    listed, unlisted = {}, {}
    for case, v in viols:
        k = vkey(v)
        (listed if k in known_keys else unlisted).setdefault(k, []).append((case, v))

    for k, text in known:
        if k in listed:
            print(f"KNOWN-FINDING: property={pid} key={k} {text} ({len(listed[k])} occurrence(s))")

    rdir = os.path.join(ROOT, "replays", pid)
    nrep = 0
    for k, lst in unlisted.items():
        case, v = lst[0]  # cases are ordered simplest-first: first = simplest
        os.makedirs(rdir, exist_ok=True)
        path = os.path.join(rdir, f"{nrep}.json")
        json.dump({"property": pid, "key": k, "violation": v, "occurrences": len(lst), "case": case}, open(path, "w"), indent=1, default=str)
        print(f"VIOLATION property={pid} replay={path}")
        print(f"  key={k} occurrences={len(lst)} detail={str(v.get('detail'))[:300]}")
        nrep += 1

    wall = time.time() - t0
    exhaustive = args.limit is None or args.limit >= total_cases
    level = mod_meta.LEVEL
    cov = {
        "exhaustive": exhaustive,
        "cases_enumerated": len(cases),
        "cases_in_space": total_cases,
        "distinct_outcomes": len(outcomes),
        "rule": mod_meta.RULE,
        "samples": samples or [cases[0]],
        "bounds": getattr(mod_meta, "BOUNDS", {}).get(args.tier, {}),
        "workers": nw,
        "x64": x64,
        "violation_keys_unlisted": sorted(unlisted),
        "violation_keys_known": sorted(listed),
    }
    if level == "model_checking":
        cov.update(states=agg["states"], transitions=agg["transitions"], traces_validated_against_impl=agg["traces"],
                   evaluations=agg["evals"], distinct_nontrivial=len(nontrivial))
    else:
        cov.update(evaluations=agg["evals"], distinct_nontrivial=len(nontrivial))
    ev = {
        "property_id": pid,
        "tier": args.tier,
        "seed": seed,
        "level": level,
        "coverage": cov,
        "assumptions": list(getattr(mod_meta, "ASSUMPTIONS", [])),
        "wall_s": round(wall, 2),
        "violations": len(unlisted),
    }
    min_out = getattr(mod_meta, "MIN_OUTCOMES", 2)
    vacuous = len(outcomes) < min_out or len(nontrivial) < 2
    if not args.no_evidence:
        os.makedirs(os.path.join(ROOT, "evidence"), exist_ok=True)
        epath = os.path.join(ROOT, "evidence", f"{pid}.json")
        json.dump(ev, open(epath, "w"), indent=1, default=str)
        _validate(epath)
    print(
        f"{pid} tier={args.tier} seed={seed} cases={len(cases)} evals={agg['evals']} states={agg['states']} "
        f"transitions={agg['transitions']} traces={agg['traces']} distinct_nontrivial={len(nontrivial)} "
        f"outcomes={len(outcomes)} known={len(listed)} violations={len(unlisted)} wall={wall:.1f}s"
    )
    if unlisted:
        return 1
    if vacuous:
        print(f"HARNESS-ERROR: vacuous run (outcomes={len(outcomes)} < {min_out} or nontrivial={len(nontrivial)} < 2)")
        return 2
    return 0


def _validate(epath):
    schema = "/root/.vp/EVIDENCE.schema.json"
    if not os.path.exists(schema):
        return
    code = (
        "import json,sys,jsonschema;"
        "jsonschema.validate(json.load(open(sys.argv[1])),json.load(open(sys.argv[2])))"
    )
    try:
        r = subprocess.run(["python3-vt", "-c", code, epath, schema], capture_output=True, text=True, timeout=60,
                           env={k: v for k, v in os.environ.items() if k not in ("PYTHONPATH",)})
        if r.returncode != 0:
            print("EVIDENCE-SCHEMA-WARNING:", r.stderr.strip().splitlines()[-1] if r.stderr else "")
    except Exception as e:  # pylint: disable=broad-except
        print("EVIDENCE-SCHEMA-WARNING: validator unavailable:", e)


if __name__ == "__main__":
    sys.exit(main())
